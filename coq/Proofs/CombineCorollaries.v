(* Combination theorems for C03, part 5: the clauses of the English statement as corollaries of
   combined_equals_sequential — hooks / rlimits / CDI devices of all plugins in plugin order; nothing
   that no plugin names is changed (frame); the value of the last plugin naming a key is the final
   one, and a removal by the last plugin naming a key takes effect. *)
From Coq Require Import String Ascii List Bool ZArith Arith Lia.
From NRI Require Import Base.Lists Base.Strs Base.Assoc Model.Types Model.Result Spec.Apply
  Proofs.KeyedProofs Proofs.CombineWf Proofs.CombineBase Proofs.CombineFamilies Proofs.CombineProofs.
Import ListNotations.
Open Scope string_scope.
Open Scope list_scope.

(* Prop-level form of C03_combined_equals_sequential *)
Lemma combined_OEq c0 rps s :
  wf_create c0 rps = true -> snd (run_request (RCreate c0) rps) = Ok s ->
  OEq (apply_adj c0 (s_adjust s)) (apply_all c0 (adjs rps)).
Proof.
  intros Hwf H. destruct (create_final_state c0 rps s Hwf H) as [c [_ [Hinv [Hobs _]]]].
  apply (OEq_trans _ c); [apply (CInv_obs _ _ _ _ Hinv)|exact Hobs].
Qed.

(* ---------- appended families: everything every plugin added, in plugin order ---------- *)
Definition hooks_concat (hs : list hooks) : hooks :=
  {| hk_prestart := concat (map hk_prestart hs); hk_createruntime := concat (map hk_createruntime hs);
     hk_createcontainer := concat (map hk_createcontainer hs); hk_startcontainer := concat (map hk_startcontainer hs);
     hk_poststart := concat (map hk_poststart hs); hk_poststop := concat (map hk_poststop hs) |}.

Lemma apply_all_cons c p ps : apply_all c (p :: ps) = apply_all (apply_adj c p) ps.
Proof. reflexivity. Qed.

Lemma apply_all_rlimits ps : forall c, c_rlimits (apply_all c ps) = c_rlimits c ++ concat (map a_rlimits ps).
Proof.
  induction ps as [|p r IH]; intros c; [cbn; rewrite app_nil_r; reflexivity|].
  rewrite apply_all_cons, IH. cbn [apply_adj c_rlimits map concat]. rewrite <- app_assoc. reflexivity.
Qed.

Lemma apply_all_hooks ps : forall c, c_hooks (apply_all c ps) = hooks_append (c_hooks c) (hooks_concat (map a_hooks ps)).
Proof.
  induction ps as [|p r IH]; intros c.
  - cbn [apply_all fold_left map]. unfold hooks_concat. cbn [map concat]. symmetry. apply hooks_append_empty.
  - rewrite apply_all_cons, IH. cbn [apply_adj c_hooks]. rewrite hooks_append_assoc. f_equal.
Qed.

Lemma hooks_append_cancel x a b : hooks_append x a = hooks_append x b -> a = b.
Proof.
  destruct x, a, b. unfold hooks_append. cbn. intros H. inversion H.
  repeat match goal with E : ?l ++ _ = ?l ++ _ |- _ => apply app_inv_head in E end. subst. reflexivity.
Qed.

Theorem appended_in_plugin_order c0 rps s :
  wf_create c0 rps = true -> snd (run_request (RCreate c0) rps) = Ok s ->
  a_hooks (s_adjust s) = hooks_concat (map a_hooks (adjs rps)) /\
  a_rlimits (s_adjust s) = concat (map a_rlimits (adjs rps)) /\
  a_cdi (s_adjust s) = concat (map a_cdi (adjs rps)).
Proof.
  intros Hwf H. pose proof (combined_OEq c0 rps s Hwf H) as Ho.
  destruct (create_final_state c0 rps s Hwf H) as [c [_ [_ [_ Hcdi]]]].
  split; [|split; [|exact Hcdi]].
  - pose proof (oe_hooks _ _ Ho) as E. rewrite apply_all_hooks in E. cbn [apply_adj c_hooks] in E.
    apply (hooks_append_cancel _ _ _ E).
  - pose proof (oe_rlimits _ _ Ho) as E. rewrite apply_all_rlimits in E. cbn [apply_adj c_rlimits] in E.
    apply (app_inv_head _ _ _ E).
Qed.

(* ---------- frame: a key that no plugin names keeps its original value ---------- *)
Lemma mark_rawkey x : marked x = true -> mark (rawkey x) = x.
Proof.
  unfold mark, marked, rawkey, is_marked. destruct x as [|c r]; [discriminate|].
  destruct (Ascii.eqb_spec c "-"%char) as [->|_]; [reflexivity|discriminate].
Qed.

(* annotations *)
Definition names_ann (k : string) (p : adjustment) : Prop :=
  In k (map fst (a_ann p)) \/ In (mark k) (map fst (a_ann p)).

Lemma ann_sets_keys ann k : In k (akeys (ann_sets ann)) -> In k (map fst ann).
Proof.
  unfold akeys, ann_sets. intros H. apply in_map_iff in H. destruct H as [e [He Hin]]. apply filter_In in Hin.
  apply in_map_iff. exists e. tauto.
Qed.

Lemma ann_dels_keys ann k : In k (ann_dels ann) -> In (mark k) (map fst ann).
Proof.
  unfold ann_dels. intros H. apply in_map_iff in H. destruct H as [e [He Hin]]. apply filter_In in Hin. destruct Hin as [Hin Hm].
  apply in_map_iff. exists e. split; [|exact Hin]. rewrite <- He. symmetry. apply mark_rawkey. exact Hm.
Qed.

Lemma apply_ann_frame c ann k :
  ~ In k (map fst ann) -> ~ In (mark k) (map fst ann) -> alookup k (apply_ann c ann) = alookup k c.
Proof.
  intros H1 H2. rewrite alookup_apply_ann.
  assert (Ha : alast k (ann_sets ann) = None).
  { apply alast_None_notin. intros Hi. apply H1. apply ann_sets_keys. exact Hi. }
  assert (Hd : smem k (ann_dels ann) = false).
  { apply smem_false_notin. intros Hi. apply H2. apply ann_dels_keys. exact Hi. }
  rewrite Ha, Hd. reflexivity.
Qed.

Lemma apply_all_ann_frame k ps : forall c,
  (forall p, In p ps -> ~ names_ann k p) -> alookup k (c_ann (apply_all c ps)) = alookup k (c_ann c).
Proof.
  induction ps as [|p r IH]; intros c H; [reflexivity|].
  rewrite apply_all_cons, IH by (intros q Hq; apply H; right; exact Hq).
  cbn [apply_adj c_ann]. apply apply_ann_frame; intros Hi; apply (H p (or_introl eq_refl)); [left|right]; exact Hi.
Qed.

(* the value of the last plugin that names an annotation key is the final one; its removal takes effect *)
Lemma apply_all_ann_last k pre p post c v :
  (forall q, In q post -> ~ names_ann k q) ->
  alast k (ann_sets (a_ann p)) = Some v ->
  alookup k (c_ann (apply_all c (pre ++ p :: post))) = Some v.
Proof.
  intros Hpost Hv. rewrite apply_all_app, apply_all_cons, (apply_all_ann_frame k post _ Hpost).
  cbn [apply_adj c_ann]. rewrite alookup_apply_ann, Hv. reflexivity.
Qed.

Lemma apply_all_ann_removed k pre p post c :
  (forall q, In q post -> ~ names_ann k q) ->
  ~ In k (map fst (a_ann p)) -> In (mark k) (map fst (a_ann p)) ->
  alookup k (c_ann (apply_all c (pre ++ p :: post))) = None.
Proof.
  intros Hpost Hn Hm. rewrite apply_all_app, apply_all_cons, (apply_all_ann_frame k post _ Hpost).
  cbn [apply_adj c_ann]. rewrite alookup_apply_ann.
  assert (Ha : alast k (ann_sets (a_ann p)) = None).
  { apply alast_None_notin. intros Hi. apply Hn. apply ann_sets_keys. exact Hi. }
  assert (Hd : smem k (ann_dels (a_ann p)) = true).
  { apply smem_In. unfold ann_dels. apply in_map_iff in Hm. destruct Hm as [e [He Hin]].
    apply in_map_iff. exists e. split; [rewrite He; apply rawkey_mark|].
    apply filter_In. split; [exact Hin|]. rewrite He. apply marked_mark. }
  rewrite Ha, Hd. reflexivity.
Qed.

(* keyed list families, generically *)
Section KFrame.
Variables (E W : Type) (ekey : E -> string) (wkey : W -> string) (inj : E -> W).
Variable good : E -> Prop.
Hypothesis inj_key : forall e, good e -> marked (ekey e) = false -> wkey (inj e) = ekey e.

Lemma apply_keyed_frame c es k :
  (forall e, In e es -> good e) ->
  ~ In k (map ekey es) -> ~ In (mark k) (map ekey es) ->
  kfind wkey k (apply_keyed ekey wkey inj c es) = kfind wkey k c.
Proof.
  intros Hg H1 H2. rewrite kfind_apply_keyed.
  assert (Hd : smem k (r_dels ekey es) = false).
  { apply smem_false_notin. intros Hi. apply H2. unfold r_dels in Hi. apply in_map_iff in Hi. destruct Hi as [e [He Hin]].
    apply filter_In in Hin. destruct Hin as [Hin Hm]. apply in_map_iff. exists e. split; [|exact Hin].
    rewrite <- He. symmetry. apply mark_rawkey. exact Hm. }
  assert (Hm : smem k (r_mods ekey es) = false).
  { apply smem_false_notin. intros Hi. apply H1. unfold r_mods, r_adds in Hi. apply in_map_iff in Hi. destruct Hi as [e [He Hin]].
    apply filter_In in Hin. apply in_map_iff. exists e. tauto. }
  rewrite Hd, Hm. cbn [negb andb].
  rewrite (kfind_map_inj _ _ ekey wkey inj good inj_key) by (apply adds_good; exact Hg).
  assert (Hn : kfind ekey k (r_adds ekey es) = None).
  { apply kfind_None_notin. intros Hi. apply smem_false_notin in Hm. apply Hm. exact Hi. }
  rewrite Hn. destruct (kfind wkey k c); reflexivity.
Qed.
End KFrame.

Definition names_mount (k : string) (p : adjustment) : Prop :=
  In k (map m_dest (a_mounts p)) \/ In (mark k) (map m_dest (a_mounts p)).
Definition names_device (k : string) (p : adjustment) : Prop :=
  In k (map d_path (a_devices p)) \/ In (mark k) (map d_path (a_devices p)).
Definition names_env (k : string) (p : adjustment) : Prop :=
  In k (map fst (a_env p)) \/ In (mark k) (map fst (a_env p)).

Lemma apply_all_mounts_frame k ps : forall c,
  (forall p, In p ps -> ~ names_mount k p) -> kfind m_dest k (c_mounts (apply_all c ps)) = kfind m_dest k (c_mounts c).
Proof.
  induction ps as [|p r IH]; intros c H; [reflexivity|].
  rewrite apply_all_cons, IH by (intros q Hq; apply H; right; exact Hq).
  cbn [apply_adj c_mounts].
  apply (apply_keyed_frame _ _ m_dest m_dest (fun m => m) mgood m_inj_key); [intros e _; exact I| |];
    intros Hi; apply (H p (or_introl eq_refl)); [left|right]; exact Hi.
Qed.

Lemma apply_all_devices_frame k ps : forall c,
  (forall p, In p ps -> ~ names_device k p) -> kfind d_path k (c_devices (apply_all c ps)) = kfind d_path k (c_devices c).
Proof.
  induction ps as [|p r IH]; intros c H; [reflexivity|].
  rewrite apply_all_cons, IH by (intros q Hq; apply H; right; exact Hq).
  cbn [apply_adj c_devices].
  apply (apply_keyed_frame _ _ d_path d_path (fun d => d) dgood d_inj_key); [intros e _; exact I| |];
    intros Hi; apply (H p (or_introl eq_refl)); [left|right]; exact Hi.
Qed.

Lemma apply_all_env_frame k ps : forall c,
  (forall p, In p ps -> adj_wf p) ->
  (forall p, In p ps -> ~ names_env k p) -> kfind env_key k (c_env (apply_all c ps)) = kfind env_key k (c_env c).
Proof.
  induction ps as [|p r IH]; intros c Hwf H; [reflexivity|].
  rewrite apply_all_cons, IH by (intros q Hq; first [apply Hwf; right; exact Hq|apply H; right; exact Hq]).
  cbn [apply_adj c_env].
  apply (apply_keyed_frame _ _ env_entry_key env_key env_to_oci egood e_inj_key).
  - intros e He. apply (aw_env p (Hwf p (or_introl eq_refl)) e He).
  - intros Hi. apply (H p (or_introl eq_refl)). left. exact Hi.
  - intros Hi. apply (H p (or_introl eq_refl)). right. exact Hi.
Qed.

(* resources: scalar fields and unified keys *)
Lemma apply_all_scal_frame f ps : forall c,
  (forall p, In p ps -> flookup f (r_scal (a_res p)) = None) ->
  flookup f (r_scal (c_res (apply_all c ps))) = flookup f (r_scal (c_res c)).
Proof.
  induction ps as [|p r IH]; intros c H; [reflexivity|].
  rewrite apply_all_cons, IH by (intros q Hq; apply H; right; exact Hq).
  cbn [apply_adj c_res apply_res r_scal]. rewrite flookup_apply_scal, (H p (or_introl eq_refl)). reflexivity.
Qed.

Lemma apply_all_uni_frame k ps : forall c,
  (forall p, In p ps -> ~ In k (map fst (r_uni (a_res p)))) ->
  alookup k (r_uni (c_res (apply_all c ps))) = alookup k (r_uni (c_res c)).
Proof.
  induction ps as [|p r IH]; intros c H; [reflexivity|].
  rewrite apply_all_cons, IH by (intros q Hq; apply H; right; exact Hq).
  cbn [apply_adj c_res apply_res r_uni]. fold (set_all (r_uni (a_res p)) (r_uni (c_res c))). rewrite alookup_set_all.
  assert (Ha : alast k (r_uni (a_res p)) = None) by (apply alast_None_notin; apply (H p (or_introl eq_refl))).
  rewrite Ha. reflexivity.
Qed.

(* singletons: command line, cgroups path, OOM score *)
Lemma apply_all_single_frame ps : forall c,
  (forall p, In p ps -> a_args p = [] /\ a_cgroups p = "" /\ a_oom p = None) ->
  c_args (apply_all c ps) = c_args c /\ c_cgroups (apply_all c ps) = c_cgroups c /\ c_oom (apply_all c ps) = c_oom c.
Proof.
  induction ps as [|p r IH]; intros c H; [repeat split|].
  rewrite apply_all_cons. destruct (IH (apply_adj c p)) as [H1 [H2 H3]]; [intros q Hq; apply H; right; exact Hq|].
  rewrite H1, H2, H3. destruct (H p (or_introl eq_refl)) as [E1 [E2 E3]].
  cbn [apply_adj c_args c_cgroups c_oom]. rewrite E1, E2, E3. repeat split.
Qed.

(* ---------- the frame clause of C03 on the combined result ---------- *)
Theorem unnamed_unchanged c0 rps s :
  wf_create c0 rps = true -> snd (run_request (RCreate c0) rps) = Ok s ->
  let r := apply_adj c0 (s_adjust s) in
  (forall k, (forall p, In p (adjs rps) -> ~ names_ann k p) -> alookup k (c_ann r) = alookup k (c_ann c0)) /\
  (forall k, (forall p, In p (adjs rps) -> ~ names_mount k p) -> kfind m_dest k (c_mounts r) = kfind m_dest k (c_mounts c0)) /\
  (forall k, (forall p, In p (adjs rps) -> ~ names_env k p) -> kfind env_key k (c_env r) = kfind env_key k (c_env c0)) /\
  (forall k, (forall p, In p (adjs rps) -> ~ names_device k p) -> kfind d_path k (c_devices r) = kfind d_path k (c_devices c0)) /\
  (forall f, (forall p, In p (adjs rps) -> flookup f (r_scal (a_res p)) = None) ->
             flookup f (r_scal (c_res r)) = flookup f (r_scal (c_res c0))) /\
  (forall k, (forall p, In p (adjs rps) -> ~ In k (map fst (r_uni (a_res p)))) ->
             alookup k (r_uni (c_res r)) = alookup k (r_uni (c_res c0))) /\
  ((forall p, In p (adjs rps) -> a_args p = [] /\ a_cgroups p = "" /\ a_oom p = None) ->
   c_args r = c_args c0 /\ c_cgroups r = c_cgroups c0 /\ c_oom r = c_oom c0).
Proof.
  intros Hwf H r. pose proof (combined_OEq c0 rps s Hwf H) as Ho. fold r in Ho.
  split; [|split; [|split; [|split; [|split; [|split]]]]].
  - intros k Hk. rewrite (oe_ann _ _ Ho). apply apply_all_ann_frame. exact Hk.
  - intros k Hk. rewrite (oe_mounts _ _ Ho). apply apply_all_mounts_frame. exact Hk.
  - intros k Hk. rewrite (oe_env _ _ Ho). apply apply_all_env_frame; [apply (wf_create_sound c0 rps Hwf)|exact Hk].
  - intros k Hk. rewrite (oe_devices _ _ Ho). apply apply_all_devices_frame. exact Hk.
  - intros f Hf. rewrite (oe_scal _ _ Ho). apply apply_all_scal_frame. exact Hf.
  - intros k Hk. rewrite (oe_uni _ _ Ho). apply apply_all_uni_frame. exact Hk.
  - intros Hs. rewrite (oe_args _ _ Ho), (oe_cgroups _ _ Ho), (oe_oom _ _ Ho). apply apply_all_single_frame. exact Hs.
Qed.

(* final owner's value / removals take effect, for annotations, on the combined result *)
Theorem annotation_last_writer c0 pre rp post s k :
  let rps := pre ++ rp :: post in
  wf_create c0 rps = true -> snd (run_request (RCreate c0) rps) = Ok s ->
  (forall q, In q (adjs post) -> ~ names_ann k q) ->
  (forall v, alast k (ann_sets (a_ann (adj_of rp))) = Some v ->
             alookup k (c_ann (apply_adj c0 (s_adjust s))) = Some v) /\
  (~ In k (map fst (a_ann (adj_of rp))) -> In (mark k) (map fst (a_ann (adj_of rp))) ->
   alookup k (c_ann (apply_adj c0 (s_adjust s))) = None).
Proof.
  intros rps Hwf H Hpost. pose proof (combined_OEq c0 rps s Hwf H) as Ho.
  assert (E : adjs rps = adjs pre ++ adj_of rp :: adjs post) by (unfold rps, adjs; rewrite map_app; reflexivity).
  split.
  - intros v Hv. rewrite (oe_ann _ _ Ho), E. apply apply_all_ann_last; assumption.
  - intros Hn Hm. rewrite (oe_ann _ _ Ho), E. apply apply_all_ann_removed; assumption.
Qed.
