(* Correspondence and property predicates for the cases written by harness/cmd/h_adapt. *)
From Coq Require Import String Ascii List Bool ZArith Arith.
From NRI Require Import Base.Strs Base.Assoc Model.Types Model.Result Model.Generate Spec.Apply Spec.AbsLedger Spec.Updates Spec.UpdateView Proofs.CombineWf Spec.GenSpec.
Import ListNotations.
Open Scope string_scope.
Open Scope list_scope.

Record adapt_case := {
  ac_req : request;
  ac_resps : list response;                          (* asked plugins in index order *)
  ac_err : nat;                                      (* 0 none, 1 conflict, 2 self-update *)
  ac_views : list shown;                             (* what each invoked plugin was shown *)
  ac_reply : adjustment;                             (* combined adjustment returned (create) *)
  ac_updates : list (option (string * resources));   (* updates returned *)
  ac_combined : option spec;                         (* real generator applied to the real reply *)
  ac_sequential : option spec                        (* real generator applied plugin by plugin *)
}.

(* ---------- exact comparisons modulo map order ---------- *)
Definition res_eqb (a b : resources) : bool :=
  scal_eqb (r_scal a) (r_scal b) &&
  list_eqb (fun x y => String.eqb (fst x) (fst y) && Z.eqb (snd x) (snd y)) (r_hp a) (r_hp b) &&
  smap_eqb (r_uni a) (r_uni b).

Definition container_eqb (a b : container) : bool :=
  String.eqb (c_id a) (c_id b) &&
  smap_eqb (c_ann a) (c_ann b) &&
  list_eqb mount_eqb (c_mounts a) (c_mounts b) &&
  list_eqb String.eqb (c_env a) (c_env b) &&
  list_eqb String.eqb (c_args a) (c_args b) &&
  hooks_eqb (c_hooks a) (c_hooks b) &&
  list_eqb rlimit_eqb (c_rlimits a) (c_rlimits b) &&
  list_eqb device_eqb (c_devices a) (c_devices b) &&
  res_eqb (c_res a) (c_res b) &&
  String.eqb (c_cgroups a) (c_cgroups b) &&
  opt_eqb Z.eqb (c_oom a) (c_oom b).

Definition shown_eqb (a b : shown) : bool :=
  match a, b with
  | ShownContainer x, ShownContainer y => container_eqb x y
  | ShownResources x, ShownResources y => res_eqb x y
  | ShownNothing, ShownNothing => true
  | _, _ => false
  end.

(* set equality of string lists *)
Definition sset_eqb (a b : list string) : bool :=
  forallb (fun x => smem x b) a && forallb (fun x => smem x a) b.

(* replies: sets exactly (in order), removal markers as a set *)
Definition keyed_reply_eqb {E} (key : E -> string) (eqb : E -> E -> bool) (a b : list E) : bool :=
  list_eqb eqb (filter (fun e => negb (marked (key e))) a) (filter (fun e => negb (marked (key e))) b) &&
  sset_eqb (map key (filter (fun e => marked (key e)) a)) (map key (filter (fun e => marked (key e)) b)).

Definition adjustment_eqb (a b : adjustment) : bool :=
  smap_eqb (a_ann a) (a_ann b) &&
  keyed_reply_eqb m_dest mount_eqb (a_mounts a) (a_mounts b) &&
  keyed_reply_eqb fst (fun x y => String.eqb (fst x) (fst y) && String.eqb (snd x) (snd y)) (a_env a) (a_env b) &&
  list_eqb String.eqb (a_args a) (a_args b) &&
  hooks_eqb (a_hooks a) (a_hooks b) &&
  list_eqb rlimit_eqb (a_rlimits a) (a_rlimits b) &&
  list_eqb String.eqb (a_cdi a) (a_cdi b) &&
  keyed_reply_eqb d_path device_eqb (a_devices a) (a_devices b) &&
  res_eqb (a_res a) (a_res b) &&
  String.eqb (a_cgroups a) (a_cgroups b) &&
  opt_eqb Z.eqb (a_oom a) (a_oom b).

Definition out_update_eqb (eq : resources -> resources -> bool) (a b : option (string * resources)) : bool :=
  opt_eqb (fun x y => String.eqb (fst x) (fst y) && eq (snd x) (snd y)) a b.

Definition err_class (e : err) : nat := match e with EConflict _ => 1 | ESelfUpdate _ => 2 end.

Definition created_of (rq : request) : option string := match rq with RCreate c => Some (c_id c) | _ => None end.
Definition own_of (rq : request) : option (string * resources) := match rq with RUpdate id r => Some (id, r) | _ => None end.
Definition adjs_of (rps : list response) : list adjustment :=
  map (fun rp => match rp_adjust rp with Some a => a | None => adj_empty end) rps.

(* ---------- correspondence: the model reproduces the implementation's projected observable ---------- *)
Definition corr_adapt_with (out : list shown * res st) (c : adapt_case) : bool :=
  let '(views, r) := out in
  match r with
  | Err e =>
      Nat.eqb (ac_err c) (err_class e) && list_eqb shown_eqb views (ac_views c)
  | Ok s =>
      Nat.eqb (ac_err c) 0 &&
      list_eqb shown_eqb views (ac_views c) &&
      (match ac_req c with RCreate _ => adjustment_eqb (s_adjust s) (ac_reply c) | _ => true end) &&
      list_eqb (out_update_eqb res_eqb)
               (map (fun o => match o with Some a => Some (au_id a, au_res a) | None => None end) (response_updates (ac_req c) s))
               (ac_updates c)
  end.

(* spec observation compared up to the map readings of I3, CDI names in order *)
Definition spec_obs_eqb (a b : spec) : bool :=
  obs_eqb (sp_c a) (sp_c b) && list_eqb String.eqb (sp_cdi a) (sp_cdi b).

(* ---------- the properties' predicates, evaluated on the implementation's observation ---------- *)
Definition holds_C01 (c : adapt_case) : bool :=
  let cr := created_of (ac_req c) in
  implb (abs_conflict cr (ac_resps c)) (negb (Nat.eqb (ac_err c) 0)).

Definition holds_C02 (c : adapt_case) : bool :=
  let cr := created_of (ac_req c) in
  implb (negb (abs_conflict cr (ac_resps c)) && negb (self_update cr (ac_resps c))) (Nat.eqb (ac_err c) 0).

(* C03: (b) real generator on the real reply = real generator plugin by plugin; and the reply read by
   the reference semantics equals the sequential reference result *)
Definition holds_C03 (c : adapt_case) : bool :=
  match ac_req c, ac_err c with
  | RCreate c0, O =>
      (* outside the domain of the theorems (Proofs/CombineWf.v: a marker of a marker, '=' in an env name,
         a command line that is only the removal marker or begins with it twice) the statement is silent *)
      negb (wf_create c0 (ac_resps c)) ||
      ((match ac_combined c, ac_sequential c with
        | Some a, Some b => spec_obs_eqb a b
        | _, _ => false
        end) &&
       obs_eqb (apply_adj c0 (ac_reply c)) (apply_all c0 (adjs_of (ac_resps c))) &&
       list_eqb String.eqb (a_cdi (ac_reply c)) (concat (map a_cdi (adjs_of (ac_resps c)))))
  | _, _ => true
  end.

(* C04: every view is the original with the earlier plugins' adjustments / own-container updates applied *)
Fixpoint views_ok (i : nat) (views : list shown) (f : nat -> shown -> bool) : bool :=
  match views with
  | [] => true
  | v :: r => f i v && views_ok (S i) r f
  end.

Definition own_overlay (id : string) (req : resources) (rps : list response) : resources :=
  fold_left (fun r rp => fold_left (fun r u => if String.eqb (u_id u) id then match u_res u with Some x => apply_res r x | None => r end else r)
                                   (rp_updates rp) r) rps req.

Definition holds_C04 (c : adapt_case) : bool :=
  match ac_req c with
  | RCreate c0 =>
      views_ok 0 (ac_views c) (fun i v =>
        (* W4: silent once an earlier plugin sent the bare removal marker as its command line *)
        negb (wf_views (firstn i (ac_resps c))) ||
        match v with
        | ShownContainer x => obs_eqb x (apply_all c0 (firstn i (adjs_of (ac_resps c))))
        | _ => false
        end)
  | RUpdate id req =>
      (* the requested resources overlaid with the own-container updates of the plugins before position i
         that were not dropped (Spec/UpdateView.v); a dropped ignore-failure update contributes NOTHING to
         what later plugins are shown, whatever fields it names.  Judged at every position, also after a
         drop (own_overlay_nd = own_overlay when nothing was dropped: Proofs/UpdateViewProofs.v) *)
      views_ok 0 (ac_views c) (fun i v =>
        match v with
        | ShownResources x => res_obs_eqb x (own_overlay_nd id req (firstn i (ac_resps c)))
        | _ => false
        end)
  | RStop _ => true
  end.

(* the placeholder for an unchanged container: nil and an entry without values are the same observation *)
Definition res_is_empty (r : resources) : bool :=
  match r_scal r, r_hp r, r_uni r with [], [], [] => true | _, _, _ => false end.
Definition out_update_obs_eqb (a b : option (string * resources)) : bool :=
  match a, b with
  | None, Some (_, r) | Some (_, r), None => res_is_empty r
  | _, _ => out_update_eqb res_obs_eqb a b
  end.
Fixpoint updates_obs_eqb (own : bool) (a b : list (option (string * resources))) : bool :=
  match a, b with
  | [], [] => true
  | [x], [y] => if own then out_update_obs_eqb x y else out_update_eqb res_obs_eqb x y
  | x :: r, y :: s => out_update_eqb res_obs_eqb x y && updates_obs_eqb own r s
  | _, _ => false
  end.

Definition holds_C05 (c : adapt_case) : bool :=
  let cr := created_of (ac_req c) in
  implb (self_update cr (ac_resps c)) (negb (Nat.eqb (ac_err c) 0)) &&
  match spec_updates cr (own_of (ac_req c)) (ac_resps c) with
  | Some us =>
      (* no hard conflict (a conflicting ignore-failure update is DROPPED, it does not fail the request):
         the request succeeds unless it updates the container being created ... *)
      (self_update cr (ac_resps c) || Nat.eqb (ac_err c) 0) &&
      (* ... and hands the runtime exactly the specified updates *)
      match ac_err c with
      | O => updates_obs_eqb (match ac_req c with RUpdate _ _ => true | _ => false end) us (ac_updates c)
      | _ => true
      end
  | None => negb (Nat.eqb (ac_err c) 0)
  end.

(* one evaluation of the model per case; order = the predicate names given by the driver *)
Definition verdict_adapt (c : adapt_case) : list bool :=
  let out := run_request (ac_req c) (ac_resps c) in
  [corr_adapt_with out c; holds_C01 c; holds_C02 c; holds_C03 c; holds_C04 c; holds_C05 c].

(* ---------- generator cases (C13) ---------- *)
Record gen_case := {
  gc_spec : spec;
  gc_adjust : adjustment;
  gc_out : spec;             (* the real generator's result (identical over all repetitions) *)
  gc_deterministic : bool    (* all repetitions produced the same spec *)
}.

Definition devrule_eqb (a b : devrule) : bool :=
  String.eqb (dr_type a) (dr_type b) && opt_eqb Z.eqb (dr_major a) (dr_major b) &&
  opt_eqb Z.eqb (dr_minor a) (dr_minor b) && String.eqb (dr_access a) (dr_access b).

Definition spec_eqb (a b : spec) : bool :=
  container_eqb (sp_c a) (sp_c b) && list_eqb String.eqb (sp_cdi a) (sp_cdi b) &&
  list_eqb devrule_eqb (sp_rules a) (sp_rules b).

Definition corr_gen (c : gen_case) : bool := spec_eqb (gen_adjust (gc_adjust c) (gc_spec c)) (gc_out c).

(* gen_view (the part of the reference result the generator is documented to apply) and
   cleared_classes are defined in Spec/GenSpec.v, shared with the theorems of Properties/C13.v *)

Definition holds_C13 (c : gen_case) : bool :=
  gc_deterministic c &&
  obs_eqb (sp_c (gc_out c)) (apply_adj (cleared_classes (gc_adjust c) (sp_c (gc_spec c))) (gen_view (gc_adjust c))) &&
  list_eqb String.eqb (sp_cdi (gc_out c)) (sp_cdi (gc_spec c) ++ a_cdi (gc_adjust c)) &&
  (match a_mounts (gc_adjust c) with [] => true | _ => parents_first (c_mounts (sp_c (gc_out c))) end) &&
  (* every device that was set has its allow rule *)
  forallb (fun d => marked (d_path d) ||
                    existsb (fun r => String.eqb (dr_type r) (d_type d) && opt_eqb Z.eqb (dr_major r) (Some (d_major d)) &&
                                      opt_eqb Z.eqb (dr_minor r) (Some (d_minor d))) (sp_rules (gc_out c)))
          (a_devices (gc_adjust c)).

Definition verdict_gen (c : gen_case) : list bool := [corr_gen c; holds_C13 c].
