(* Case records of the C18 driver (harness/cmd/h_launch, driver "launch") and the two functions evaluated
   on every case:  corr_launch  — Model/Launch.v run on the same directory contents yields what the real
   Adaptation + probe plugins showed;  holds_launch — the statement's own reading (Spec/LaunchSpec.v) is
   true of the implementation's observation. *)
From Coq Require Import String Ascii List Bool Arith NArith ZArith.
From NRI Require Import Base.Strs Base.Assoc Model.Consts Model.Launch Spec.LaunchSpec Run.Common.
Import ListNotations.
Open Scope string_scope.

(* one launched process, as reported by the probe plugin and the process table *)
Record plugin_obs := {
  po_file : string;              (* file name in the plugin directory *)
  po_count : N;                  (* number of times it was started *)
  po_env : list string;          (* its environment, sorted *)
  po_stub : string;              (* stub.Name() of the real stub inside it ("" = stub.New failed) *)
  po_fds : list N;               (* inherited descriptors, sorted *)
  po_fd3_socket : bool;
  po_config : option string;     (* configuration string received in Configure; None = never configured *)
  po_after_start : N;            (* process state when Start has returned: 0 gone, 1 zombie, 2 running *)
  po_after_stop : N              (* … when Stop has returned (0 = no such child of the runtime any more) *)
}.

(* one event sent through the adaptation; eo_order = file names of the plugins in the order they ran their handler;
   eo_after_death = sent after the "later" of the ODieLater / OHangLater plugins.  A case of the "silent stop"
   kind has no such event: the plugins lose their connection, the runtime notices, and Stop is called with no
   event or request in between *)
Record event_obs := { eo_after_death : bool; eo_err : bool; eo_order : list string }.

Record launch_case := {
  lc_entries : list dirent;                 (* plugin directory, in creation order *)
  lc_dropins : dropin_dir;                  (* drop-in directory *)
  lc_outcomes : list (string * outcome);    (* behaviour of each launched file (by file name); default OGood *)
  lc_sync_calls : bool;                     (* the runtime's SyncFn calls the synchronisation closure … *)
  lc_sync_fails : bool;                     (* … and returns an error (Start must then fail as a whole) *)
  lc_start_ok : bool;                       (* Adaptation.Start returned nil *)
  lc_obs : list plugin_obs;                 (* sorted by file name *)
  lc_events : list event_obs
}.

Definition outcome_by_name (c : launch_case) (n : string) : outcome :=
  match alookup n (lc_outcomes c) with Some o => o | None => OGood end.
Definition outcome_of (c : launch_case) (p : discovered) : outcome := outcome_by_name c (d_name p).

Definition state_code (s : option pstate) : N :=
  match s with Some PGone => 0 | Some PZombie => 1 | Some PRunning => 2 | None => 0 end%N.

(* what happened between Start and the process table being read, as actions of Model/Launch.v: the events sent
   before the deaths, the deaths (noticed by the runtime), the events after them (possibly none), Stop *)
Definition lost_actions (c : launch_case) (ds : list discovered) : list action :=
  flat_map (fun p => match outcome_of c p with
                     | ODieLater => [AConnLost (d_name p) true; ANotice (d_name p)]
                     | OHangLater => [AConnLost (d_name p) false; ANotice (d_name p)]
                     | _ => []
                     end) ds.
Definition case_history (c : launch_case) (ds : list discovered) : list action :=
  (map (fun _ => AEvent) (filter (fun e => negb (eo_after_death e)) (lc_events c)) ++
   lost_actions c ds ++
   map (fun _ => AEvent) (filter eo_after_death (lc_events c)) ++ [AStop])%list.
Definition world_started (c : launch_case) (ds : list discovered) : list rplugin :=
  start_world (lc_sync_calls c) (lc_sync_fails c) (outcome_of c) ds.
Definition world_after_stop (c : launch_case) (ds : list discovered) : list rplugin :=
  run (case_history c ds) (world_started c ds).

Definition strs_eqb := list_eqb String.eqb.
Definition is_nil {A} (l : list A) : bool := match l with [] => true | _ => false end.
Fixpoint all2 {A B} (f : A -> B -> bool) (a : list A) (b : list B) : bool :=
  match a, b with
  | [], [] => true
  | x :: r, y :: s => (f x y && all2 f r s)%bool
  | _, _ => false
  end.

(* ------------------------------------------------------------------ correspondence *)

Definition obs_matches (c : launch_case) (w0 w : list rplugin) (p : discovered) (po : plugin_obs) : bool :=
  let o := outcome_of c p in
  let env := child_env (d_idx p) (d_base p) in
  (String.eqb (po_file po) (d_name p) &&
   N.eqb (po_count po) 1 &&
   strs_eqb (po_env po) (sort_strings env) &&
   String.eqb (po_stub po) (match stub_name env ("/plugins/" ++ d_name p) with Some n => n | None => "" end) &&
   list_eqb N.eqb (po_fds po) child_fds && po_fd3_socket po &&
   opt_eqb String.eqb (po_config po) (if configured o then Some (d_cfg p) else None) &&
   N.eqb (po_after_start po) (state_code (Some (proc_of w0 (d_name p)))) &&
   N.eqb (po_after_stop po) (state_code (Some (proc_of w (d_name p)))))%bool.

(* the model's list up to the order of plugins with equal indices (sort.Slice is not stable) *)
Definition order_matches (observed : list string) (model : list discovered) : bool :=
  (nondecreasing (map num_of_name observed) &&
   strs_eqb (sort_strings observed) (sort_strings (map d_name model)))%bool.

Definition event_matches (c : launch_case) (act : list discovered) (e : event_obs) : bool :=
  (negb (eo_err e) &&
   order_matches (eo_order e)
     (invoked (fun p => if eo_after_death e then survives (outcome_of c p) else true) act))%bool.

Definition corr_launch (c : launch_case) : bool :=
  match discover_plugins (lc_entries c) (lc_dropins c) with
  | None => (negb (lc_start_ok c) && is_nil (lc_obs c) && is_nil (lc_events c))%bool
  | Some ds =>
      let act := start_plugins (outcome_of c) ds in
      (Bool.eqb (lc_start_ok c) (negb (lc_sync_fails c)) &&
       (lc_sync_fails c || lc_sync_calls c) &&      (* a SyncFn that succeeds without calling the closure is not driven *)
       all2 (obs_matches c (world_started c ds) (world_after_stop c ds)) (filter (fun p => launches (outcome_of c p)) ds) (lc_obs c) &&
       (if lc_sync_fails c then is_nil (lc_events c) else forallb (event_matches c act) (lc_events c)))%bool
  end.

(* ------------------------------------------------------------------ the property on the observation *)

Definition obs_holds (c : launch_case) (po : plugin_obs) : bool :=
  match wf_name (po_file po) with
  | None => false
  | Some (idx, base) =>
      let o := outcome_by_name c (po_file po) in
      (N.eqb (po_count po) 1 &&                                             (* launched once *)
       strs_eqb (po_env po) (spec_env idx base) &&                          (* name, index, socket: nothing else *)
       (String.eqb base "" || String.eqb (po_stub po) (po_file po)) &&     (* the stub picked them up *)
       list_eqb N.eqb (po_fds po) [0; 1; 2; 3]%N && po_fd3_socket po &&    (* no other descriptor *)
       (if configured o
        then opt_eqb String.eqb (po_config po) (Some (spec_config (lc_dropins c) idx base))
        else opt_eqb String.eqb (po_config po) None) &&                    (* its drop-in configuration *)
       (if lc_sync_fails c then N.eqb (po_after_start po) 0                 (* Start failed: all dropped, all killed *)
        else if active o then N.eqb (po_after_start po) 2                   (* the others are unaffected *)
        else negb (N.eqb (po_after_start po) 2)) &&                         (* killed when dropped *)
       N.eqb (po_after_stop po) 0)%bool                                     (* killed (and reaped) when NRI stops *)
  end.

Definition event_holds (c : launch_case) (cands : list string) (e : event_obs) : bool :=
  let expected := filter (fun n => let o := outcome_by_name c n in
                                   if eo_after_death e then (active o && survives o)%bool else active o) cands in
  (negb (eo_err e) &&
   nondecreasing (map num_of_name (eo_order e)) &&                          (* index order *)
   strs_eqb (sort_strings (eo_order e)) (sort_strings expected))%bool.      (* exactly the healthy ones, once *)

Definition holds_launch (c : launch_case) : bool :=
  let cands := filter spec_candidate (read_dir (lc_entries c)) in
  let start_expected :=
    forallb (fun e => match wf_name (de_name e) with
                      | None => false
                      | Some (idx, base) => spec_config_ok (lc_dropins c) idx base
                      end) cands in
  if negb start_expected
  then (negb (lc_start_ok c) && is_nil (lc_obs c))%bool                     (* I6: Start fails as a whole *)
  else
    let names := map de_name cands in
    (Bool.eqb (lc_start_ok c) (negb (lc_sync_fails c)) &&                  (* a failing SyncFn fails Start as a whole *)
     (negb (lc_sync_fails c) || is_nil (lc_events c)) &&
     strs_eqb (map po_file (lc_obs c)) (filter (fun n => launches (outcome_by_name c n)) names) &&
     forallb (obs_holds c) (lc_obs c) &&
     forallb (event_holds c names) (lc_events c))%bool.
