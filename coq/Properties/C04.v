(* C04 — each plugin sees the container exactly as the earlier plugins left it. *)
From Coq Require Import String List Bool.
From NRI Require Import Model.Types Model.Result Proofs.ResultProofs.
Import ListNotations.

(* the first plugin sees exactly what the runtime submitted *)
Theorem C04_first_view :
  forall rq rp rps, exists rest, fst (run_request rq (rp :: rps)) = view_of (init_state rq) :: rest.
Proof. exact first_view. Qed.
Print Assumptions C04_first_view.
