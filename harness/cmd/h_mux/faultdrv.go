package main

import (
	"encoding/binary"
	"encoding/hex"
	"encoding/json"
	"fmt"
	"os"
	"sort"
	"strings"

	"verif/harness/internal/coqfmt"
	"verif/harness/internal/hx"
)

// builder appends acts to a script and keeps the bookkeeping simulator in step (with
// predicted results), so that generators know which Reads would block.
type builder struct {
	s    *scriptScn
	m    *sim
	seq  [2]int
	bg   []int       // indices of background acts not joined yet
	aw   int         // how many of the bookkeeping's self-closed Muxes have an "await" act already
	late [2][]uint32 // ids opened by the script after the start
}

func (b *builder) open(side int, id uint32) {
	b.add(act{Op: "open", Side: side, ID: id})
	for _, x := range with(b.s.Open[side], b.late[side]...) {
		if x == id {
			return
		}
	}
	if id != 0 {
		b.late[side] = append(b.late[side], id)
	}
}

func newBuilder(stream, transport string, qlen int, openA, openB []uint32) *builder {
	s := &scriptScn{Stream: stream, Transport: transport, QLen: qlen, Open: [2][]uint32{openA, openB}, Cut: [2]int{-1, -1}}
	return &builder{s: s}
}

func (b *builder) start() {
	if b.m == nil {
		b.m = newSim(b.s)
		b.awaits()
	}
}

// a Mux that has to close itself now (its reader met the end of the trunk or an overflow, a Write
// failed half-way) does so in its own goroutines: wait for it before the script goes on
func (b *builder) awaits() {
	for b.aw < len(b.m.selfClosed) {
		side := b.m.selfClosed[b.aw]
		b.aw++
		w := act{Op: "await", Side: side}
		b.s.Acts = append(b.s.Acts, w)
		b.m.apply(b.s, len(b.s.Acts)-1, w, actRes{Kind: "ok"}, nil)
	}
}

func (b *builder) add(a act) int {
	b.start()
	idx := len(b.s.Acts)
	b.s.Acts = append(b.s.Acts, a)
	b.m.apply(b.s, idx, a, b.m.predict(a), nil)
	b.awaits()
	return idx
}

func (b *builder) write(side int, id uint32, size int) {
	b.add(act{Op: "write", Side: side, ID: id, Size: size, Seq: b.seq[side]})
	b.seq[side]++
}

// readOrBg: a Read that returns now if the bookkeeping says so, a background Read otherwise
func (b *builder) readOrBg(side int, id uint32) {
	b.start()
	if b.m.wouldBlock(side, id) {
		b.bg = append(b.bg, b.add(act{Op: "bgread", Side: side, ID: id}))
		return
	}
	if b.m.connClosed(side, id) {
		b.add(act{Op: "drain", Side: side, ID: id})
		return
	}
	b.add(act{Op: "read", Side: side, ID: id})
}

func (b *builder) joinAll() {
	for _, i := range b.bg {
		b.add(act{Op: "join", Side: b.s.Acts[i].Side, N: i})
	}
	b.bg = nil
}

// finish: close both ends, collect the background calls, drain every connection, try one more Write each
func (b *builder) finish() *scriptScn {
	b.start()
	for side := 0; side < 2; side++ {
		if !b.s.Raw[side] {
			if b.s.Blocked[side] && b.m.side[side].blocked {
				b.add(act{Op: "unblock", Side: side})
			}
			b.add(act{Op: "close", Side: side})
		}
	}
	b.joinAll()
	for side := 0; side < 2; side++ {
		if b.s.Raw[side] {
			continue
		}
		for _, id := range with(b.s.Open[side], b.late[side]...) {
			b.add(act{Op: "drain", Side: side, ID: id})
		}
		for _, id := range b.late[side] {
			b.write(side, id, 2)
		}
		if len(b.s.Open[side]) > 0 {
			b.write(side, b.s.Open[side][0], 3)
		}
	}
	return b.s
}

const syncID = 77 // opened at the writing end only: the peer's reader drops these frames

func with(ids []uint32, extra ...uint32) []uint32 {
	return append(append([]uint32{}, ids...), extra...)
}

// ---------------------------------------------------------------- generators

func genCut(c *hx.Ctx) []*scriptScn {
	r := c.Rand("muxfault_cut")
	type base struct {
		ws  []wr
		ids []uint32
	}
	bases := []base{
		{[]wr{{1, 3}, {2, 0}, {1, 17}, {9, 4}, {3, 1}, {2, 40}, {1, 0}, {1, 5}}, []uint32{1, 2, 3}},
	}
	nrand := c.Pick(1, 3)
	for k := 0; k < nrand; k++ {
		ids := pickIDs(r, 1+r.Intn(3))
		var ws []wr
		for j, n := 0, 4+r.Intn(5); j < n; j++ {
			id := ids[r.Intn(len(ids))]
			if r.Intn(8) == 0 {
				id = 9
			}
			ws = append(ws, wr{id, []int{0, 1, 2, 5, 9, 23, 64}[r.Intn(7)]})
		}
		bases = append(bases, base{ws, ids})
	}
	if !c.Quick() {
		// one stream of 1 to 2 KiB, cut at every byte
		var ws []wr
		ids := []uint32{1, 2, 0xffffffff}
		for j := 0; j < 12; j++ {
			ws = append(ws, wr{ids[r.Intn(3)], []int{0, 7, 64, 100, 200, 300}[r.Intn(6)]})
		}
		bases = append(bases, base{ws, ids})
	}
	var out []*scriptScn
	for bi, bs := range bases {
		total := 0
		bounds := []int{0}
		for _, w := range bs.ws {
			total += 8 + w.Size
			bounds = append(bounds, total)
		}
		offs := map[int]bool{}
		exhaustive := !c.Quick() || total <= 160
		if exhaustive {
			c.Count("muxfault_cut.streams_cut_at_every_byte", 1)
		} else {
			c.Count("muxfault_cut.streams_cut_at_frame_boundaries", 1)
		}
		if !exhaustive {
			for _, bd := range bounds {
				for d := -2; d <= 2; d++ {
					if bd+d >= 0 && bd+d <= total {
						offs[bd+d] = true
					}
				}
				if bd+8 <= total {
					offs[bd+8] = true // exactly after a header
				}
			}
		} else {
			for n := 0; n <= total; n++ {
				offs[n] = true
			}
		}
		var ns []int
		for n := range offs {
			ns = append(ns, n)
		}
		sort.Ints(ns)
		variant := 0
		for _, n := range ns {
			variants := 1
			if c.Quick() || total < 600 {
				variants = 2
			}
			for v := 0; v < variants; v++ {
				variant++
				side := variant % 2
				eager := (variant/2)%2 == 1
				transport := "pipe"
				if variant%3 == 0 {
					transport = "unix"
				}
				open := [2][]uint32{bs.ids, bs.ids}
				open[side] = with(bs.ids, 9)
				b := newBuilder("muxfault_cut", transport, 256, open[0], open[1])
				b.s.Cut[side] = n
				b.s.CutErr[side] = []string{"", "timeout", "", "temporary", "timeout"}[(variant+n)%5]
				if transport == "unix" {
					// a transient failure exactly between two Writes leaves the Mux alive and the exchange goes on:
					// on a socket the final Close would then race with frames still unread in the peer's buffer
					// (connection reset instead of end-of-file); those offsets get the transient kind on the pipe only
					for _, bd := range bounds {
						if bd == n {
							b.s.CutErr[side] = ""
						}
					}
				}
				b.s.Note = fmt.Sprintf("base %d, %d bytes, cut at %d (%s), writer side %d, eager=%v", bi, total, n, b.s.CutErr[side], side, eager)
				if eager {
					for _, id := range bs.ids {
						b.readOrBg(1-side, id)
					}
				}
				for _, w := range bs.ws {
					b.write(side, w.ID, w.Size)
				}
				out = append(out, b.finish())
			}
		}
	}
	return out
}

func genOverflow(c *hx.Ctx) []*scriptScn {
	var out []*scriptScn
	maxQ := 8
	mk := func(q, side int, note string, plan func(b *builder)) {
		ids := []uint32{1, 2}
		open := [2][]uint32{ids, ids}
		open[side] = with(ids, syncID)
		b := newBuilder("muxfault_overflow", "pipe", q, open[0], open[1])
		b.s.Note = note
		b.start()
		plan(b)
		out = append(out, b.finish())
	}
	step := func(b *builder, side int, id uint32, size int) {
		b.write(side, id, size)
		b.write(side, syncID, 1) // returns only when the peer's reader is past the previous frame
	}
	for q := 1; q <= maxQ; q++ {
		for pos := 0; pos <= q+1; pos++ {
			q, pos := q, pos
			side := (q + pos) % 2
			mk(q, side, fmt.Sprintf("qlen %d, receiver stops reading after %d frames", q, pos), func(b *builder) {
				for k := 0; k < pos+q+3; k++ {
					if k%3 == 2 && k/3 < q {
						step(b, side, 2, k%5)
					}
					step(b, side, 1, (k*3)%11)
					if k < pos {
						b.readOrBg(1-side, 1)
					}
				}
			})
		}
	}
	r := c.Rand("muxfault_overflow")
	for k, n := 0, c.Pick(40, 400); k < n; k++ {
		q := 1 + r.Intn(maxQ)
		side := r.Intn(2)
		mk(q, side, "random schedule", func(b *builder) {
			for j := 0; j < 6*q+6 && !b.m.overflow; j++ {
				id := uint32(1 + r.Intn(2))
				if r.Intn(5) < 3 {
					step(b, side, id, r.Intn(20))
				} else if !b.m.wouldBlock(1-side, id) {
					b.readOrBg(1-side, id)
				}
			}
			if b.m.overflow {
				step(b, side, 1, 2)
			}
		})
	}
	return out
}

// a scripted exchange; the fault is inserted at every point
type xop struct {
	write bool
	side  int
	id    uint32
	size  int
}

func genClose(c *hx.Ctx) []*scriptScn {
	var out []*scriptScn
	r := c.Rand("muxfault_close")
	basesN := c.Pick(2, 6)
	faults := []string{"close0", "close1", "cclose0", "cclose1", "trunkclose0", "trunkclose1", "closers0", "closers1"}
	for bi := 0; bi < basesN; bi++ {
		ids := []uint32{1, 2}
		if bi > 0 {
			ids = pickIDs(r, 2)
		}
		// build the exchange with a throw-away builder so that Reads are issued only when a frame is due
		var ops []xop
		{
			tb := newBuilder("x", "pipe", 256, ids, ids)
			for j, n := 0, 9+r.Intn(4); j < n; j++ {
				side := r.Intn(2)
				id := ids[r.Intn(2)]
				if r.Intn(5) < 3 {
					sz := []int{0, 1, 4, 30}[r.Intn(4)]
					ops = append(ops, xop{true, side, id, sz})
					tb.write(side, id, sz)
				} else if tb.start(); !tb.m.wouldBlock(side, id) {
					ops = append(ops, xop{false, side, id, 0})
					tb.readOrBg(side, id)
				}
			}
		}
		for p := 0; p <= len(ops); p++ {
			for fi, f := range faults {
				if c.Quick() && (p+fi+bi)%2 == 1 {
					continue // quick tier: half of the (point, fault) grid, alternating
				}
				b := newBuilder("muxfault_close", "pipe", 256, ids, ids)
				b.s.Note = fmt.Sprintf("exchange %d, %s before op %d of %d", bi, f, p, len(ops))
				play := func(o xop) {
					if o.write {
						b.write(o.side, o.id, o.size)
					} else {
						b.readOrBg(o.side, o.id)
					}
				}
				for _, o := range ops[:p] {
					play(o)
				}
				side := int(f[len(f)-1] - '0')
				switch f[:len(f)-1] {
				case "close":
					b.add(act{Op: "close", Side: side})
				case "cclose":
					b.add(act{Op: "cclose", Side: side, ID: ids[0]})
				case "trunkclose":
					b.add(act{Op: "trunkclose", Side: side})
				case "closers":
					b.add(act{Op: "closers", Side: side, N: 3, Mode: 1})
				}
				for _, o := range ops[p:] {
					play(o)
				}
				out = append(out, b.finish())
			}
		}
	}
	return out
}

func genClosers(c *hx.Ctx) []*scriptScn {
	var out []*scriptScn
	for n := 1; n <= 16; n++ {
		for mode := 0; mode < 3; mode++ {
			if c.Quick() && (n+mode)%2 == 1 && n > 3 {
				continue
			}
			for _, transport := range []string{"pipe", "unix"} {
				for both := 0; both < 2; both++ {
					ids := []uint32{1, 2, 3}
					b := newBuilder("muxfault_closers", transport, 256, ids, ids)
					b.s.Note = fmt.Sprintf("%d closers, mode %d, both ends=%v", n, mode, both == 1)
					side := n % 2
					// a little traffic, consumed; then every connection has a blocked reader
					if transport == "pipe" {
						b.write(side, 1, 5)
						b.readOrBg(1-side, 1)
						b.write(1-side, 2, 0)
						b.readOrBg(side, 2)
					}
					for s := 0; s < 2; s++ {
						for _, id := range ids {
							b.readOrBg(s, id)
						}
					}
					b.add(act{Op: "closers", Side: side, N: n, Mode: mode})
					if both == 1 {
						b.add(act{Op: "closers", Side: 1 - side, N: (n+1)/2 + 1, Mode: (mode + 1) % 3})
					}
					out = append(out, b.finish())
				}
			}
		}
	}
	return out
}

func genBlocked(c *hx.Ctx) []*scriptScn {
	var out []*scriptScn
	ids := []uint32{1, 2}
	for _, f := range []string{"close0", "close1", "trunkclose0", "trunkclose1", "unblock1", "cclose0"} {
		// pipe: the peer's reader is blocked, so a Write blocks in the trunk
		b := newBuilder("muxfault_blocked", "pipe", 4, ids, ids)
		b.s.Blocked[1] = true
		b.s.Note = "writer blocked on a peer whose reader is not unblocked; then " + f
		w := b.add(act{Op: "bgwrite", Side: 0, ID: 1, Size: 6, Seq: 0})
		b.seq[0]++
		side := int(f[len(f)-1] - '0')
		switch f[:len(f)-1] {
		case "close":
			b.add(act{Op: "close", Side: side})
		case "trunkclose":
			b.add(act{Op: "trunkclose", Side: side})
		case "unblock":
			b.add(act{Op: "unblock", Side: side})
		case "cclose":
			b.add(act{Op: "cclose", Side: side, ID: 1})
			b.add(act{Op: "unblock", Side: 1})
		}
		b.add(act{Op: "join", Side: 0, N: w})
		out = append(out, b.finish())
	}
	for k := 0; k <= 4; k++ {
		for variant := 0; variant < 3; variant++ {
			// unix: frames wait in the socket while the peer is blocked
			b := newBuilder("muxfault_blocked", "unix", 4, ids, ids)
			b.s.Blocked[1] = true
			b.s.Note = fmt.Sprintf("%d frames sent to a blocked peer, variant %d", k, variant)
			if variant == 2 {
				// a reader waiting at the writing end sees how the close of the other end arrives
				b.readOrBg(0, ids[0])
			}
			for j := 0; j < k; j++ {
				b.write(0, ids[j%2], j*3)
			}
			switch variant {
			case 0: // unblock, everything arrives (k=4 on one id would overflow a queue of 4? two ids: at most 2 each)
				b.add(act{Op: "unblock", Side: 1})
				for j := 0; j < k; j++ {
					b.readOrBg(1, ids[j%2])
				}
			case 1: // the writer closes first; the frames are still delivered, then end-of-file
				b.add(act{Op: "close", Side: 0})
				b.add(act{Op: "unblock", Side: 1})
			case 2: // the blocked end is closed before it ever ran; with frames unread in its socket
				// buffer the kernel resets the connection: the writing end sees a failing trunk, not an
				// end-of-file, and the Read waiting there returns before anything else is done
				b.add(act{Op: "close", Side: 1})
				b.joinAll()
			}
			out = append(out, b.finish())
		}
	}
	return out
}

func frameBytes(id uint32, pay []byte) []byte {
	b := make([]byte, 8+len(pay))
	binary.BigEndian.PutUint32(b, id)
	binary.BigEndian.PutUint32(b[4:], uint32(len(pay)))
	copy(b[8:], pay)
	return b
}

// malformed stream: a bare transport end feeds the Mux frames for unknown and reserved ids
// and a damaged tail; the only oracle is agreement with the model and absence of crashes
func genRaw(c *hx.Ctx) []*scriptScn {
	var out []*scriptScn
	r := c.Rand("muxfault_raw")
	for k, n := 0, c.Pick(60, 600); k < n; k++ {
		ids := pickIDs(r, 1+r.Intn(2))
		q := []int{1, 2, 256}[r.Intn(3)]
		transport := []string{"pipe", "unix"}[k%2]
		b := newBuilder("muxfault_raw", transport, q, nil, ids)
		b.s.Raw[0] = true
		b.s.Note = "bare end writes frames for opened, unknown and reserved ids, then a damaged tail"
		var buf []byte
		for j, m := 0, r.Intn(6); j < m; j++ {
			id := ids[r.Intn(len(ids))]
			switch r.Intn(5) {
			case 0:
				id = 0 // reserved
			case 1:
				id = 4242 // never opened
			}
			pay := make([]byte, []int{0, 1, 3, 20, 200}[r.Intn(5)])
			r.Read(pay)
			buf = append(buf, frameBytes(id, pay)...)
		}
		switch r.Intn(5) {
		case 0: // clean end
		case 1:
			tailb := make([]byte, 1+r.Intn(7))
			r.Read(tailb)
			buf = append(buf, tailb...)
		case 2: // header only
			buf = append(buf, frameBytes(ids[0], make([]byte, 1+r.Intn(900)))[:8]...)
		case 3: // payload cut
			f := frameBytes(ids[0], make([]byte, 2+r.Intn(500)))
			buf = append(buf, f[:9+r.Intn(len(f)-9)]...)
		case 4: // an announced length far beyond what follows
			hdr := make([]byte, 8)
			binary.BigEndian.PutUint32(hdr, ids[0])
			binary.BigEndian.PutUint32(hdr[4:], uint32(50000+r.Intn(10000)))
			buf = append(buf, hdr...)
			buf = append(buf, byte(r.Intn(256)))
		}
		// in one or two pieces
		if len(buf) > 1 && r.Intn(2) == 0 && transport == "unix" {
			cut := 1 + r.Intn(len(buf)-1)
			b.add(act{Op: "raw", Side: 0, Hex: hex.EncodeToString(buf[:cut])})
			b.add(act{Op: "raw", Side: 0, Hex: hex.EncodeToString(buf[cut:])})
		} else if len(buf) > 0 {
			b.add(act{Op: "raw", Side: 0, Hex: hex.EncodeToString(buf)})
		}
		b.add(act{Op: "trunkclose", Side: 0})
		out = append(out, b.finish())
	}
	return out
}

// Open at any moment: after Close, after the peer closed, after a failing transport, after a Write cut
// half-way, after an overflow, racing with Close, and on a healthy Mux.  Every call on a connection
// opened on a closed Mux must fail promptly.
func genOpen(c *hx.Ctx) []*scriptScn {
	var out []*scriptScn
	ids := []uint32{1, 2}
	faults := []string{"close", "peerclose", "trunkclose", "peertrunkclose", "cutwrite", "overflow", "cclose"}
	for fi, f := range faults {
		for side := 0; side < 2; side++ {
			for ti, transport := range []string{"pipe", "unix"} {
				q := 256
				if f == "overflow" {
					q = 1
					if transport == "unix" {
						continue // the sync frames need the synchronous transport
					}
				}
				open := [2][]uint32{ids, ids}
				open[1-side] = with(ids, syncID)
				b := newBuilder("muxfault_open", transport, q, open[0], open[1])
				b.s.Note = fmt.Sprintf("Open after %s, opener side %d", f, side)
				if f == "cutwrite" {
					b.s.Cut[side] = 8 + 11 + 8 + 2 // two whole frames of 3 bytes go out, the third is cut inside its payload
				}
				if transport == "pipe" && f != "cutwrite" {
					b.write(1-side, 1, 4)
					b.readOrBg(side, 1)
				}
				switch f {
				case "close":
					b.add(act{Op: "close", Side: side})
				case "peerclose":
					b.add(act{Op: "close", Side: 1 - side})
				case "trunkclose":
					b.add(act{Op: "trunkclose", Side: side})
				case "peertrunkclose":
					b.add(act{Op: "trunkclose", Side: 1 - side})
				case "cutwrite":
					b.write(side, 1, 3)
					b.write(side, 2, 3)
					b.write(side, 1, 5)
				case "overflow":
					b.write(1-side, 2, 1)
					b.write(1-side, syncID, 1)
					b.write(1-side, 2, 2)
					b.write(1-side, syncID, 1)
				case "cclose":
					// only one connection is closed: the Mux lives, a new id works, the reserved id is refused
					b.add(act{Op: "cclose", Side: side, ID: 2})
				}
				b.open(side, 6+uint32(fi))
				b.open(side, 0) // reserved: refused
				b.open(side, 1) // open already: the same connection
				if (fi+side+ti)%2 == 0 {
					b.open(1-side, 6+uint32(fi))
				}
				if f == "cclose" && transport == "pipe" {
					// a late connection on a healthy Mux carries data once both ends have it
					if (fi+side+ti)%2 != 0 {
						b.open(1-side, 6+uint32(fi))
					}
					b.write(1-side, 6+uint32(fi), 7)
					b.readOrBg(side, 6+uint32(fi))
					b.write(side, 6+uint32(fi), 0)
					b.readOrBg(1-side, 6+uint32(fi))
				}
				b.readOrBg(side, 6+uint32(fi))
				out = append(out, b.finish())
			}
		}
	}
	// racing with Close
	for _, n := range []int{1, 2, 3, 4, 8, 16} {
		for mode := 0; mode < 2; mode++ {
			for rep := 0; rep < c.Pick(2, 10); rep++ {
				for ti, transport := range []string{"pipe", "unix"} {
					side := (n + mode + rep + ti) % 2
					b := newBuilder("muxfault_open", transport, 256, ids, ids)
					b.s.Note = fmt.Sprintf("%d Opens racing with Close (mode %d), side %d", n, mode, side)
					for _, id := range ids {
						b.readOrBg(side, id)
					}
					b.add(act{Op: "openrace", Side: side, ID: 100, N: n, Mode: mode})
					for k := 0; k < n; k++ {
						b.late[side] = append(b.late[side], 100+uint32(k))
					}
					out = append(out, b.finish())
				}
			}
		}
	}
	return out
}

// Stale handles: open id, close it, open the same id again (a new connection object), close the OLD
// handle once more (twice) — then the Mux closes, the peer closes or the transport fails, with a Read
// pending on the replacement or issued later, and a sibling id that nobody touched.
func genReopen(c *hx.Ctx) []*scriptScn {
	var out []*scriptScn
	ids := []uint32{1, 2}
	faults := []string{"close", "peerclose", "trunkclose", "peertrunkclose"}
	for fi, f := range faults {
		for side := 0; side < 2; side++ {
			for ti, transport := range []string{"pipe", "unix"} {
				for variant := 0; variant < 4; variant++ {
					pending := variant%2 == 0 // a Read waits on the replacement when the fault comes
					traffic := variant/2 == 1 // the replacement carries data first
					if traffic && transport == "unix" {
						continue
					}
					b := newBuilder("muxfault_reopen", transport, 256, ids, ids)
					b.s.Note = fmt.Sprintf("reopen, stale Close, then %s; opener side %d, pending=%v traffic=%v", f, side, pending, traffic)
					if transport == "pipe" {
						b.write(1-side, 1, 3)
						b.readOrBg(side, 1)
					}
					b.add(act{Op: "cclose", Side: side, ID: 1})
					if (fi+side+ti+variant)%2 == 0 {
						b.add(act{Op: "cclose", Side: side, ID: 1}) // a repeated Close before the re-Open: harmless in any version
					}
					b.open(side, 1)
					b.add(act{Op: "staleclose", Side: side, ID: 1})
					if variant != 1 {
						b.add(act{Op: "staleclose", Side: side, ID: 1})
					}
					if traffic {
						b.write(1-side, 1, 6)
						b.readOrBg(side, 1)
						b.write(side, 1, 2)
						b.readOrBg(1-side, 1)
					}
					if pending {
						b.readOrBg(side, 1)
						b.readOrBg(side, 2)
					}
					switch f {
					case "close":
						b.add(act{Op: "close", Side: side})
					case "peerclose":
						b.add(act{Op: "close", Side: 1 - side})
					case "trunkclose":
						b.add(act{Op: "trunkclose", Side: side})
					case "peertrunkclose":
						b.add(act{Op: "trunkclose", Side: 1 - side})
					}
					b.joinAll()
					b.readOrBg(side, 1) // issued later
					b.readOrBg(side, 2)
					out = append(out, b.finish())
				}
			}
		}
	}
	return out
}

// Deadlines armed on ONE logical connection (expired already, or expiring during a pause) must not disturb the
// others: the trunk is shared, Set*Deadline of a multiplexed connection are no-ops.  Traffic on the other ids in
// both directions follows and has to arrive; the closes at the end are orderly.
func genDeadline(c *hx.Ctx) []*scriptScn {
	var out []*scriptScn
	ids := []uint32{1, 2, 3}
	for _, transport := range []string{"unix", "pipe"} {
		for side := 0; side < 2; side++ {
			for kind := 0; kind < 3; kind++ {
				for when := 0; when < 2; when++ {
					for early := 0; early < 2; early++ {
						if c.Quick() && transport == "pipe" && (kind+when+early+side)%2 == 1 {
							continue
						}
						b := newBuilder("muxfault_deadline", transport, 256, ids, ids)
						ms, note := -1000, "already expired"
						if when == 1 {
							ms, note = 3, "expiring during a pause"
						}
						b.s.Note = fmt.Sprintf("deadline kind %d on id 1 at side %d, %s, before any traffic=%v", kind, side, note, early == 1)
						arm := func(sd int, id uint32, k int) {
							b.add(act{Op: "deadline", Side: sd, ID: id, Mode: k, N: ms})
							if when == 1 {
								b.add(act{Op: "pause", Side: sd, N: 60})
							}
						}
						if early == 0 {
							b.write(1-side, 2, 5)
							b.readOrBg(side, 2)
						}
						arm(side, 1, kind)
						// the peer writes to the other connections; the end that armed the deadline reads them and answers
						b.write(1-side, 2, 9)
						b.write(1-side, 3, 0)
						b.write(1-side, 2, 33)
						b.readOrBg(side, 2)
						b.readOrBg(side, 3)
						b.readOrBg(side, 2)
						b.write(side, 3, 7)
						b.write(side, 1, 2)
						b.readOrBg(1-side, 3)
						b.readOrBg(1-side, 1)
						// a second deadline, of another kind, at the other end, then more traffic both ways
						arm(1-side, 3, (kind+1)%3)
						b.write(side, 2, 4)
						b.readOrBg(1-side, 2)
						b.write(1-side, 1, 6)
						b.readOrBg(side, 1)
						out = append(out, b.finish())
					}
				}
			}
		}
	}
	return out
}

// Unblock at any time: on a Mux that was never blocked (created without WithBlockedRead), on one that was unblocked
// at set-up, repeatedly, before and between traffic in both directions, and twice on a Mux that really was
// blocked.  It must change nothing: everything written arrives, in order, on its own connection.
func genUnblock(c *hx.Ctx) []*scriptScn {
	var out []*scriptScn
	ids := []uint32{1, 2}
	for ti, transport := range []string{"unix", "pipe"} {
		for plain := 0; plain < 4; plain++ { // bit 0: side 0 plain, bit 1: side 1 plain
			for when := 0; when < 3; when++ {
				for rep := 1; rep <= 2; rep++ {
					if c.Quick() && (plain+when+rep+ti)%2 == 1 && transport == "pipe" {
						continue
					}
					b := newBuilder("muxfault_unblock", transport, 256, ids, ids)
					b.s.Plain = [2]bool{plain&1 == 1, plain&2 == 2}
					b.s.Note = fmt.Sprintf("Unblock x%d, plain=%v, when=%d", rep, b.s.Plain, when)
					unblock := func() {
						for side := 0; side < 2; side++ {
							for k := 0; k < rep; k++ {
								b.add(act{Op: "unblock", Side: side})
							}
						}
					}
					traffic := func(seed int) {
						for j := 0; j < 4; j++ {
							side := (j + seed) % 2
							b.write(side, 1, 3+5*j)
							b.write(side, 2, j)
							b.write(side, 1, 40)
							b.readOrBg(1-side, 1)
							b.readOrBg(1-side, 2)
							b.readOrBg(1-side, 1)
						}
					}
					if when == 0 {
						unblock()
					}
					traffic(0)
					if when >= 1 {
						unblock()
					}
					traffic(1)
					if when == 2 {
						unblock()
						traffic(0)
					}
					out = append(out, b.finish())
				}
			}
		}
	}
	// a Mux that really is blocked: frames wait, the first Unblock lets them in, the second changes nothing
	for _, transport := range []string{"unix"} {
		for k := 1; k <= 3; k++ {
			b := newBuilder("muxfault_unblock", transport, 256, ids, ids)
			b.s.Blocked[1] = true
			b.s.Note = fmt.Sprintf("blocked end, %d frames waiting, Unblock twice", k)
			for j := 0; j < k; j++ {
				b.write(0, ids[j%2], 2+j)
			}
			b.add(act{Op: "unblock", Side: 1})
			b.add(act{Op: "unblock", Side: 1})
			b.add(act{Op: "unblock", Side: 0})
			for j := 0; j < k; j++ {
				b.readOrBg(1, ids[j%2])
			}
			b.write(0, 1, 9)
			b.readOrBg(1, 1)
			b.write(1, 2, 4)
			b.readOrBg(0, 2)
			out = append(out, b.finish())
		}
	}
	return out
}

// A bare transport end sends a frame header whose length field is above anything the multiplexer writes —
// maxPayloadSize+1, 2^31-1, 2^31, 2^32-2, 2^32-1 — for an open and for an unopened id, optionally after a good
// frame and followed by a few bytes, then nothing, then closes.  The reader allocates what the header says (the
// memory is never touched) and waits; when the trunk ends it fails stop: no panic, nothing delivered for the bogus
// frame, every Read ends with an error or end-of-file.  Each scenario runs in a child process of its own, one after
// the other (a 4 GiB allocation per process at most).
func genHuge(c *hx.Ctx, maxp int) []*scriptScn {
	var out []*scriptScn
	lens := []uint32{uint32(maxp) + 1, 0x7fffffff, 0x80000000, 0xfffffffe, 0xffffffff}
	k := 0
	for _, ln := range lens {
		for _, id := range []uint32{1, 4242} {
			variants := 1
			if !c.Quick() {
				variants = 2
			}
			for v := 0; v < variants; v++ {
				k++
				transport := []string{"pipe", "unix"}[(k+v)%2]
				b := newBuilder("muxfault_hugelen", transport, 256, nil, []uint32{1, 2})
				b.s.Raw[0] = true
				b.s.Note = fmt.Sprintf("header announcing %d bytes on id %d", ln, id)
				var buf []byte
				if k%2 == 0 {
					buf = append(buf, frameBytes(1, []byte{7, 8, 9})...) // a good frame first: it must arrive
				}
				hdr := make([]byte, 8)
				binary.BigEndian.PutUint32(hdr, id)
				binary.BigEndian.PutUint32(hdr[4:], ln)
				buf = append(buf, hdr...)
				for j := 0; j < k%4; j++ {
					buf = append(buf, byte(0xa0+j)) // 0..3 bytes of the announced payload
				}
				b.add(act{Op: "raw", Side: 0, Hex: hex.EncodeToString(buf)})
				if k%2 == 0 {
					b.readOrBg(1, 1)
				}
				b.add(act{Op: "pause", Side: 0, N: 20}) // the reader has the header and waits for the payload
				b.add(act{Op: "trunkclose", Side: 0})
				out = append(out, b.finish())
			}
		}
	}
	return out
}

// A transient failure on the READ side of the trunk: the Mux's trunk Read returns a time-out (os.ErrDeadlineExceeded, a
// net.Error with Timeout()) once, at a chosen offset of the incoming stream — on a frame boundary, inside a header,
// between header and payload, inside a payload — and the trunk delivers data again afterwards.  A read failure of any
// kind at any offset ends the reader: the frames completed before the offset arrive, then every Read fails; nothing is
// delivered damaged, nothing hangs.  The sender is a bare transport end.
func genReadFail(c *hx.Ctx) []*scriptScn {
	var out []*scriptScn
	frames := []struct {
		id   uint32
		size int
	}{{1, 3}, {2, 0}, {1, 17}, {9, 4}, {2, 6}, {1, 1}}
	var stream []byte
	bounds := []int{0}
	for k, fr := range frames {
		pay := make([]byte, fr.size)
		for j := range pay {
			pay[j] = byte(16*k + j + 1)
		}
		stream = append(stream, frameBytes(fr.id, pay)...)
		bounds = append(bounds, len(stream))
	}
	offs := map[int]bool{}
	if c.Quick() {
		for _, bd := range bounds {
			for _, d := range []int{-1, 0, 1, 4, 8, 9} {
				if bd+d >= 0 && bd+d <= len(stream) {
					offs[bd+d] = true
				}
			}
		}
	} else {
		for n := 0; n <= len(stream); n++ {
			offs[n] = true
		}
	}
	var ns []int
	for n := range offs {
		ns = append(ns, n)
	}
	sort.Ints(ns)
	for k, n := range ns {
		transport := []string{"pipe", "unix"}[k%2]
		b := newBuilder("muxfault_readfail", transport, 256, nil, []uint32{1, 2})
		b.s.Raw[0] = true
		b.s.RdFail[1] = n + 1
		b.s.Note = fmt.Sprintf("trunk Read times out once at offset %d of %d, then carries on", n, len(stream))
		if k%3 == 0 {
			b.readOrBg(1, 1) // a Read is waiting when it happens
			b.readOrBg(1, 2)
		}
		if k%2 == 0 || transport == "pipe" {
			b.add(act{Op: "raw", Side: 0, Hex: hex.EncodeToString(stream)})
		} else {
			cut := 1 + (n+5)%(len(stream)-1)
			b.add(act{Op: "raw", Side: 0, Hex: hex.EncodeToString(stream[:cut])})
			b.add(act{Op: "raw", Side: 0, Hex: hex.EncodeToString(stream[cut:])})
		}
		b.add(act{Op: "trunkclose", Side: 0})
		out = append(out, b.finish())
	}
	return out
}

// ---------------------------------------------------------------- listener wrapper

func genListener(c *hx.Ctx) []*scriptScn {
	var out []*scriptScn
	maxLen := c.Pick(4, 7)
	for l := 1; l <= maxLen; l++ {
		for bits := 0; bits < 1<<uint(l); bits++ {
			s := &scriptScn{Stream: "muxfault_listener", Transport: []string{"pipe", "unix"}[(l+bits)%2], QLen: 4,
				Open: [2][]uint32{nil, {5}}, Cut: [2]int{-1, -1}}
			s.Acts = append(s.Acts, act{Op: "listen", Side: 0, ID: 5})
			accepted, closed := false, false
			var pending []int
			seq := ""
			for k := 0; k < l; k++ {
				if bits>>uint(k)&1 == 0 {
					seq += "A"
					if !accepted || closed {
						s.Acts = append(s.Acts, act{Op: "accept", Side: 0})
						accepted = true
					} else {
						pending = append(pending, len(s.Acts))
						s.Acts = append(s.Acts, act{Op: "bgaccept", Side: 0})
					}
				} else {
					seq += "C"
					s.Acts = append(s.Acts, act{Op: "lclose", Side: 0})
					closed = true
					for _, i := range pending {
						s.Acts = append(s.Acts, act{Op: "join", Side: 0, N: i})
					}
					pending = nil
				}
			}
			if len(pending) > 0 {
				s.Acts = append(s.Acts, act{Op: "lclose", Side: 0})
				closed = true
				for _, i := range pending {
					s.Acts = append(s.Acts, act{Op: "join", Side: 0, N: i})
				}
			}
			n := 0
			if !closed {
				n = 1
			}
			s.Acts = append(s.Acts, act{Op: "lconnread", Side: 0, ID: 5, N: n})
			s.Note = "listener: " + seq
			out = append(out, s)
		}
	}
	return out
}

// ---------------------------------------------------------------- the driver

var shardBytes, shardCases = map[*hx.Shard]int{}, map[*hx.Shard]int{}

const scriptShardMax = 150

const faultImports = "From NRI Require Import Model.Mux Run.Common Run.RunMux."

func driveFault(c *hx.Ctx) error {
	gens := []struct {
		name string
		f    func(*hx.Ctx) []*scriptScn
	}{{"muxfault_cut", genCut}, {"muxfault_overflow", genOverflow}, {"muxfault_close", genClose},
		{"muxfault_closers", genClosers}, {"muxfault_blocked", genBlocked}, {"muxfault_raw", genRaw},
		{"muxfault_open", genOpen}, {"muxfault_reopen", genReopen}, {"muxfault_deadline", genDeadline}, {"muxfault_unblock", genUnblock}, {"muxfault_readfail", genReadFail}, {"muxfault_listener", genListener}}
	var all []*scriptScn
	for _, sc := range corpus(c, "C11") {
		all = append(all, sc.S)
	}
	for _, g := range gens {
		l := g.f(c)
		if len(l) == 0 {
			c.HarnessError("stream %s generated no scenario", g.name)
		}
		c.Count(g.name+".scenarios", len(l))
		all = append(all, l...)
	}
	scns := make([]scenario, len(all))
	for i, s := range all {
		scns[i] = scenario{S: s}
	}
	if f := os.Getenv("VERIF_MUX_DUMP"); f != "" {
		js, _ := json.Marshal(scns)
		os.WriteFile(f, js, 0o644)
	}
	res := runScenarios(c, "fault", scns, c.Pick(6, 8))
	shards := map[string]*hx.Shard{}
	for i, s := range all {
		if s.Stream == "muxfault_listener" {
			if shards[s.Stream] == nil {
				shards[s.Stream] = c.NewShard(s.Stream, faultImports, "listener_case", "corr_listener", "holds_listener", 500)
			}
			emitListener(c, i, s, res[i], shards[s.Stream])
			continue
		}
		if shards[s.Stream] == nil {
			shards[s.Stream] = c.NewShard(s.Stream, faultImports, "script_case", "corr_script", "holds_script", scriptShardMax)
		}
		emitScript(c, i, s, res[i], shards[s.Stream])
	}
	// headers with a length above any bound: one child process per scenario, one after the other
	hs := genHuge(c, maxPayload(c.Repo))
	c.Count("muxfault_hugelen.scenarios", len(hs))
	for i, h := range hs {
		rr := runScenarios(c, fmt.Sprintf("huge_%d", i), []scenario{{S: h}}, 1)
		if shards[h.Stream] == nil {
			shards[h.Stream] = c.NewShard(h.Stream, faultImports, "script_case", "corr_script", "holds_script", scriptShardMax)
		}
		emitScript(c, len(all)+i, h, rr[0], shards[h.Stream])
	}
	// closing a connection while the peer sends on it, many cycles, each batch in its own child process
	ks := genStress(c)
	for i, rr := range runScenarios(c, "stress", ks, len(ks)) {
		emitStress(c, i, ks[i].K, rr)
	}
	skippedCheck(c)
	c.Stats.Exhaustive = false
	c.Stats.Rule = "muxfault_cut: scripted Writes (0..64 bytes, thorough also a 2.5 KiB stream) on 1-3 ids plus an unopened one, the outgoing direction of one end cut by a byte budget at every byte offset (streams up to 160 bytes; thorough: every stream) or at every frame boundary +-2 and right after every header (longer streams in the quick tier), readers late or already blocked, net.Pipe and unix socketpair; " +
		"muxfault_overflow: queue lengths 1..8, the receiver stops reading after k frames for every k, plus random read/write schedules until a queue overflows (a dropped sync frame after each Write makes the schedule deterministic); " +
		"muxfault_close: random two-way exchanges, and before every operation of each one of: Mux.Close, conn.Close, transport failure, three concurrent closers, at either end; the rest of the exchange is then attempted; " +
		"muxfault_closers: 1..16 concurrent closers (Mux.Close and conn.Close mixed) at one or both ends with a blocked Read on every connection; " +
		"muxfault_blocked: Writes towards a Mux whose reader is not unblocked yet, then close/failure/unblock; muxfault_raw (malformed): frames for unknown and reserved ids and damaged tails from a bare transport end; " +
		"muxfault_open: Mux.Open of a new id, of the reserved id and of an open id after Close, after the peer closed, after a transport failure at either end, after a Write cut inside a payload, after a queue overflow and next to a conn.Close, at either end, and 1..16 Opens racing with Close; every Read and Write on the new connections must fail promptly on a closed Mux and carry data on a healthy one; " +
		"muxfault_reopen: on one id (a sibling id untouched): conn.Close, Open again (a new connection object), Close of the OLD handle once or twice more, optionally data over the replacement, then Mux.Close / the peer's Close / a transport failure at either end with a Read pending on the replacement or issued later; " +
		"an act that depends on an Open that hung or failed is skipped, the hang itself is the observation; " +
		"muxfault_deadline: SetDeadline / SetReadDeadline / SetWriteDeadline on one logical connection at either end, already expired or expiring during a 60 ms pause, before and between traffic on the OTHER connections in both directions, which has to arrive; a second deadline of another kind at the other end; orderly closes at the end (unix socketpair, which honours deadlines on the trunk, and the in-memory pipe); " +
		"muxfault_unblock: Mux.Unblock once or twice at both ends before, between and after two-way traffic on two connections, on Muxes created without WithBlockedRead (never blocked) and on Muxes unblocked at set-up, and twice on a Mux that really was blocked with frames waiting: everything written has to arrive; " +
		"muxfault_closestress: for 2 s (thorough 8 s) per transport and mode, cycles of Open (or Listen+Accept) at one end, a burst of 48 frames from the other end on that id, and conn.Close (or Listener.Close) somewhere inside the burst, on at least 4 processors, in child processes: a panic of the multiplexer is an observation (exit status and stderr of the child); afterwards a fresh connection must still deliver; " +
		"muxfault_hugelen: a bare transport end sends a header whose length field is maxPayloadSize+1, 2^31-1, 2^31, 2^32-2 or 2^32-1, for an open and an unopened id, optionally after a good frame and followed by 0-3 bytes, then closes; one child process per scenario, sequentially; no panic, nothing delivered for the bogus frame, Reads end with an error or end-of-file; " +
		"muxfault_readfail: the Mux's trunk Read returns a time-out (a net.Error) once at an offset of the incoming stream — frame boundaries, -1, +1, +4 (inside a header), +8 (between header and payload), +9 (inside a payload) in quick, every offset in thorough — and the trunk carries on; a bare end sends six frames in one or two pieces; fail-stop at every offset: an undamaged prefix, then errors, nothing hangs; " +
		"muxfault_listener: every sequence of Accept/Close up to length 4 (thorough 7) on the listener wrapper. " +
		"In three of five cut scenarios the failing trunk.Write returns a net.Error (Timeout or Temporary) and, when it was partial, the trunk takes bytes again afterwards (an expired write deadline, the peer drains again): the Writes that follow on other ids must fail all the same, a partial write is fatal whatever the error's type. " +
		"A cut fails the outgoing direction of one end after an exact number of bytes (the failing trunk.Write returns the n bytes that still went out); after every fault the script waits until each Mux that has to close itself has closed its trunk, so that later calls do not race with its reader. Every call runs under a 20 s bound (1 s for the rest of a scenario once a call has hung; a hung scenario is run again alone before it is reported); a script ends with Close at both ends, a drain of every connection (Reads until 64 consecutive errors) and one more Write. Non-trivial: a fault was injected and at least one call was made after it. Compared in Coq: every call's result class and payload against the model replayed on the same script (select choices taken from the observation), the recorded trunk bytes, and the property's predicate on the observation."
	return nil
}

func crashKind(text string) string {
	for _, k := range []string{"panic:", "fatal error:", "did not finish within"} {
		if i := strings.Index(text, k); i >= 0 {
			end := i + 300
			if end > len(text) {
				end = len(text)
			}
			return text[i:end]
		}
	}
	return tail(text, 300)
}

func emitScript(c *hx.Ctx, idx int, s *scriptScn, r scnResult, sh *hx.Shard) {
	raw := map[string]interface{}{"scenario": s, "index": idx}
	key := fmt.Sprint(s.Stream, "/", idx)
	if r.Skip {
		c.Count("skipped_after_hanging_scenarios", 1)
		return
	}
	if r.Crash != "" {
		raw["crash"] = r.Crash
		c.ImplFail(s.Stream, "the implementation panicked, dead-locked or hung: "+crashKind(r.Crash), raw)
		c.Eval(key, true)
		return
	}
	if r.S == nil {
		c.HarnessError("%s scenario %d: no result", s.Stream, idx)
		return
	}
	o := r.S
	raw["results"] = o.Res
	raw["sent"] = o.Sent
	if o.Fail != "" {
		c.HarnessError("%s scenario %d (%s): %s", s.Stream, idx, s.Note, o.Fail)
		return
	}
	m := newSim(s)
	for i, a := range s.Acts {
		m.apply(s, i, a, o.Res[i], o.Res)
	}
	// ---- oracle evaluated in Go as well
	for _, b := range m.bad {
		c.ImplFail(s.Stream, "a call hung, panicked or returned although it had to block: "+b, raw)
		break
	}
	afterCalls := 0
	for side := 0; side < 2; side++ {
		sd, peer := m.side[side], m.side[1-side]
		for id, got := range sd.recv {
			var want []string
			for _, w := range peer.full {
				if w.id == id {
					want = append(want, w.hex)
				}
			}
			okp := len(got) <= len(want)
			for k := 0; okp && k < len(got); k++ {
				okp = got[k] == want[k]
			}
			if !okp {
				raw["id"], raw["side"], raw["received"], raw["sent_to_id"] = id, side, got, want
				c.ImplFail(s.Stream, fmt.Sprintf("what side %d read on id %d is not a prefix of what was sent to it", side, id), raw)
			}
		}
		for _, ob := range sd.after {
			afterCalls++
			if ob == "OOk" {
				c.ImplFail(s.Stream, fmt.Sprintf("a Write at side %d succeeded after its Mux was closed", side), raw)
			}
		}
		if m.orderly {
			for _, e := range sd.events {
				if e.obs == "OErr" {
					c.ImplFail(s.Stream, fmt.Sprintf("a Read at side %d returned an error other than io.EOF after an orderly close", side), raw)
					break
				}
			}
		}
	}
	c.Eval(key, afterCalls > 0)
	c.Count(s.Stream+".calls_after_close", afterCalls)
	if m.overflow {
		c.Count(s.Stream+".overflowed", 1)
	}
	if m.orderly {
		c.Count(s.Stream+".orderly", 1)
	}
	c.Count("transport."+s.Transport, 1)
	c.Count(fmt.Sprint("qlen.", s.QLen), 1)
	// ---- the Coq case
	sideTerm := func(i int) string {
		sd := m.side[i]
		var opened, evs []string
		for _, id := range s.Open[i] {
			opened = append(opened, coqfmt.N(uint64(id)))
		}
		for _, e := range sd.events {
			evs = append(evs, coqfmt.Pair(e.ev, e.obs))
		}
		return fmt.Sprintf("{| sd_raw := %s; sd_blocked := %s; sd_qlen := %s; sd_opened := %s; sd_events := %s |}", coqfmt.Bool(s.Raw[i]), coqfmt.Bool(s.Blocked[i]), coqfmt.N(uint64(s.QLen)), coqfmt.List(opened), coqfmt.List(evs))
	}
	sentTerm := func(i int) string {
		var l []string
		for _, w := range m.side[i].sent {
			l = append(l, coqfmt.Pair(coqfmt.N(uint64(w.id)), coqfmt.Str(w.hex)))
		}
		return coqfmt.List(l)
	}
	recvTerm := func(i int) string {
		var ids []uint32
		for id := range m.side[i].recv {
			ids = append(ids, id)
		}
		sort.Slice(ids, func(a, b int) bool { return ids[a] < ids[b] })
		var l []string
		for _, id := range ids {
			l = append(l, coqfmt.Pair(coqfmt.N(uint64(id)), coqfmt.StrList(m.side[i].recv[id])))
		}
		return coqfmt.List(l)
	}
	term := fmt.Sprintf("{| sc_a := %s; sc_b := %s; sc_a2b := %s; sc_b2a := %s; sc_sent_a := %s; sc_sent_b := %s; sc_recv_a := %s; sc_recv_b := %s; sc_after_a := %s; sc_after_b := %s; sc_orderly := %s |}",
		sideTerm(0), sideTerm(1), coqfmt.Str(o.Sent[0]), coqfmt.Str(o.Sent[1]), sentTerm(0), sentTerm(1), recvTerm(0), recvTerm(1),
		coqfmt.List(m.side[0].after), coqfmt.List(m.side[1].after), coqfmt.Bool(m.orderly))
	sh.Add(term, raw)
	// coqc needs a few KiB of memory per byte of case file and ./check evaluates 16 files side by side
	shardBytes[sh] += len(term)
	shardCases[sh]++
	if shardCases[sh] >= scriptShardMax {
		shardBytes[sh], shardCases[sh] = 0, 0 // Add has written the file
	} else if shardBytes[sh] > 400000 {
		sh.Flush()
		shardBytes[sh], shardCases[sh] = 0, 0
	}
	if idx%211 == 0 {
		c.Sample(map[string]interface{}{"stream": s.Stream, "note": s.Note, "acts": s.Acts, "results": o.Res}, 8)
	}
}

func emitListener(c *hx.Ctx, idx int, s *scriptScn, r scnResult, sh *hx.Shard) {
	raw := map[string]interface{}{"scenario": s, "index": idx}
	key := fmt.Sprint(s.Stream, "/", s.Note)
	if r.Skip {
		c.Count("skipped_after_hanging_scenarios", 1)
		return
	}
	if r.Crash != "" {
		raw["crash"] = r.Crash
		c.ImplFail(s.Stream, "the implementation panicked, dead-locked or hung: "+crashKind(r.Crash), raw)
		c.Eval(key, true)
		return
	}
	if r.S == nil || r.S.Fail != "" {
		c.HarnessError("%s scenario %d: %v", s.Stream, idx, r.S)
		return
	}
	raw["results"] = r.S.Res
	var evs []string
	closedSeen, accepts := false, 0
	connClosed := false
	bad := ""
	lresOf := func(x actRes) string {
		switch x.Kind {
		case "conn":
			return "LConn"
		case "eof":
			return "LEof"
		case "started":
			return "LBlock"
		case "ok":
			return "LOk"
		}
		bad = "listener call: " + x.Kind + " " + x.Err
		return "LBlock"
	}
	for i, a := range s.Acts {
		x := r.S.Res[i]
		switch a.Op {
		case "accept", "bgaccept", "join":
			want := "LBlock"
			if a.Op == "join" {
				want = "LEof"
			} else {
				if accepts == 0 {
					want = "LConn"
				} else if closedSeen {
					want = "LEof"
				}
				accepts++
			}
			got := lresOf(x)
			if a.Op == "join" && got == "LBlock" {
				got = "LConn" // anything but end-of-file: cannot match the model
			}
			if got != want && bad == "" {
				bad = fmt.Sprintf("act %d (%s): got %s, the clause demands %s", i, a.Op, got, want)
			}
			evs = append(evs, coqfmt.Pair("LAccept", got))
		case "lclose":
			closedSeen = true
			evs = append(evs, coqfmt.Pair("LClose", lresOf(x)))
		case "lconnread":
			if a.N == 1 {
				connClosed = x.Kind != "started"
			} else {
				connClosed = x.Kind == "eof" || x.Kind == "err"
				if !connClosed && bad == "" {
					bad = "after Close of the listener a Read on the wrapped connection did not fail: " + x.Kind
				}
			}
		}
	}
	if bad != "" {
		c.ImplFail(s.Stream, bad, raw)
	}
	c.Eval(key, true)
	sh.Add(fmt.Sprintf("{| lc_events := %s; lc_conn_closed := %s |}", coqfmt.List(evs), coqfmt.Bool(connClosed)), raw)
}

// skipped scenarios exist only behind scenarios that hung, and those are reported as failing inputs
func skippedCheck(c *hx.Ctx) {
	if c.Stats.Distribution["skipped_after_hanging_scenarios"] > 0 && len(c.Stats.ImplFailures) == 0 {
		c.HarnessError("scenarios were skipped although no hanging scenario was reported")
	}
}
