(* Combination theorems for C03, part 10: C03_via_generator.  The MODEL of the project's OCI spec
   generator (Model/Generate.v gen_adjust) applied ONCE to the combined reply of a successful creation
   request gives, on the observable projection (I3), the same spec as the generator applied plugin by
   plugin.

   Route.  Everything but the scalar resources: C13's refinement (gen_adjust = the reference semantics of
   gen_view on cleared_classes, Proofs/GenRefine2.v) + gen_view / cleared_classes only touch the scalars
   + C03_combined_equals_sequential + apply_adj respects the observational equivalence.
   Scalar resources: directly on the generator's closed form gen_scal: each adjustment acts on a field f
   by eff sc f (keep / set / clear); effects compose like the overlay of the adjustments' scalars
   (eff_compose) provided no plugin gives a memory limit whose effect is "keep" (0, or not an integer). *)
From Coq Require Import String Ascii List Bool ZArith Arith Lia.
From NRI Require Import Base.Lists Base.Strs Base.Assoc Model.Types Model.Result Model.Generate Spec.Apply Spec.GenSpec
  Proofs.KeyedProofs Proofs.GenerateProofs Proofs.GenRefine Proofs.GenRefine2
  Proofs.CombineWf Proofs.CombineBase Proofs.CombineFamilies Proofs.CombineProofs Proofs.CombineCorollaries Proofs.CombineWitness.
Import ListNotations.
Open Scope string_scope.
Open Scope list_scope.

(* ---------- hypotheses, as boolean functions ---------- *)
(* wf_gen (C13's hypothesis) at every step of the plugin-by-plugin generator run *)
Fixpoint seq_wf (sp : spec) (ps : list adjustment) : bool :=
  match ps with
  | [] => true
  | a :: r => wf_gen sp a && seq_wf (gen_adjust a sp) r
  end.

(* the memory limit, if given, is a non-zero integer (0 means "no request" to the generator: W6) *)
Definition memlimit_ok (sc : list (sfield * sval)) : bool :=
  match flookup MemLimit sc with
  | None => true
  | Some (VZ l) => negb (Z.eqb l 0)
  | Some _ => false
  end.
Definition memlimits_ok (ps : list adjustment) : bool := forallb (fun p => memlimit_ok (r_scal (a_res p))) ps.

Definition gen_seq (ps : list adjustment) (sp : spec) : spec := fold_left (fun s a => gen_adjust a s) ps sp.

(* ---------- obs_equiv (GenRefine2) and OEq (CombineBase) ---------- *)
Lemma kfind_fst_alookup {V} k (l : list (string * V)) : kfind fst k l = option_map (fun v => (k, v)) (alookup k l).
Proof.
  induction l as [|[k' v] r IH]; [reflexivity|]. cbn [kfind alookup fst].
  destruct (String.eqb_spec k k') as [->|_]; [reflexivity|exact IH].
Qed.

Lemma kfind_fst_ext {V} (a b : list (string * V)) :
  (forall k, alookup k a = alookup k b) -> forall k, kfind fst k a = kfind fst k b.
Proof. intros H k. rewrite !kfind_fst_alookup, H. reflexivity. Qed.

Lemma alookup_ext_kfind {V} (a b : list (string * V)) :
  (forall k, kfind fst k a = kfind fst k b) -> forall k, alookup k a = alookup k b.
Proof. intros H k. rewrite !alookup_kfind, H. reflexivity. Qed.

Lemma OEq_obs_equiv x y : OEq x y -> obs_equiv x y.
Proof.
  intros [H1 H2 H3 H4 H5 H6 H7 H8 H9 H10 H11 H12]. unfold obs_equiv.
  split; [apply kfind_fst_ext; exact H1|]. split; [exact H2|]. split; [exact H3|]. split; [exact H4|].
  split; [exact H5|]. split; [exact H6|]. split; [exact H7|]. split; [exact H8|].
  split; [intros k; rewrite H9; reflexivity|]. split; [apply kfind_fst_ext; exact H10|]. split; [exact H11|exact H12].
Qed.

(* the container without its scalar resources *)
Definition erase (c : container) : container :=
  with_c_res c {| r_scal := []; r_hp := r_hp (c_res c); r_uni := r_uni (c_res c) |}.

Ltac simp_erase :=
  cbn [erase with_c_res c_id c_ann c_mounts c_env c_args c_hooks c_rlimits c_devices c_res c_cgroups c_oom r_scal r_hp r_uni].
Ltac simp_erase_in H :=
  cbn [erase with_c_res c_id c_ann c_mounts c_env c_args c_hooks c_rlimits c_devices c_res c_cgroups c_oom r_scal r_hp r_uni] in H.

Lemma obs_equiv_erase x y : obs_equiv x y -> obs_equiv (erase x) (erase y).
Proof.
  unfold obs_equiv. intros (H1 & H2 & H3 & H4 & H5 & H6 & H7 & H8 & H9 & H10 & H11 & H12). simp_erase.
  repeat split; auto.
Qed.

Lemma obs_equiv_split x y :
  obs_equiv (erase x) (erase y) -> (forall f, flookup f (r_scal (c_res x)) = flookup f (r_scal (c_res y))) -> obs_equiv x y.
Proof.
  unfold obs_equiv. simp_erase. intros (H1 & H2 & H3 & H4 & H5 & H6 & H7 & _ & H9 & H10 & H11 & H12) H8.
  repeat split; auto.
Qed.

(* the non-scalar part of obs_equiv, field by field *)
Record NS (x y : container) : Prop := {
  ns_ann : forall k, kfind fst k (c_ann x) = kfind fst k (c_ann y);
  ns_mounts : forall k, kfind m_dest k (c_mounts x) = kfind m_dest k (c_mounts y);
  ns_env : forall k, kfind ref_env_key k (c_env x) = kfind ref_env_key k (c_env y);
  ns_args : c_args x = c_args y;
  ns_hooks : c_hooks x = c_hooks y;
  ns_rlimits : c_rlimits x = c_rlimits y;
  ns_devices : forall k, kfind d_path k (c_devices x) = kfind d_path k (c_devices y);
  ns_hp : forall k, kfind fst k (rev (r_hp (c_res x))) = kfind fst k (rev (r_hp (c_res y)));
  ns_uni : forall k, kfind fst k (r_uni (c_res x)) = kfind fst k (r_uni (c_res y));
  ns_cgroups : c_cgroups x = c_cgroups y;
  ns_oom : c_oom x = c_oom y
}.

Lemma NS_of_erase x y : obs_equiv (erase x) (erase y) -> NS x y.
Proof.
  unfold obs_equiv. intros (H1 & H2 & H3 & H4 & H5 & H6 & H7 & _ & H9 & H10 & H11 & H12).
  split; assumption.
Qed.

Lemma erase_of_NS x y : NS x y -> obs_equiv (erase x) (erase y).
Proof.
  intros [H1 H2 H3 H4 H5 H6 H7 H9 H10 H11 H12]. unfold obs_equiv.
  split; [exact H1|]. split; [exact H2|]. split; [exact H3|]. split; [exact H4|]. split; [exact H5|]. split; [exact H6|].
  split; [exact H7|]. split; [reflexivity|]. split; [exact H9|]. split; [exact H10|]. split; [exact H11|exact H12].
Qed.

(* apply_adj respects the equivalence of the non-scalar part *)
Lemma apply_adj_NS x y a : NS x y -> NS (apply_adj x a) (apply_adj y a).
Proof.
  intros [H1 H2 H3 H4 H5 H6 H7 H9 H10 H11 H12].
  split; cbn [apply_adj c_ann c_mounts c_env c_args c_hooks c_rlimits c_devices c_res c_cgroups c_oom apply_res r_scal r_hp r_uni].
  - apply kfind_fst_ext. intros k. rewrite !alookup_apply_ann, (alookup_ext_kfind _ _ H1). reflexivity.
  - intros k. rewrite !kfind_apply_keyed, H2. reflexivity.
  - intros k. rewrite !kfind_apply_keyed, H3. reflexivity.
  - rewrite H4. reflexivity.
  - rewrite H5. reflexivity.
  - rewrite H6. reflexivity.
  - intros k. rewrite !kfind_apply_keyed, H7. reflexivity.
  - intros k. rewrite !rev_app_distr, !kfind_app, H9. reflexivity.
  - apply kfind_fst_ext. intros k.
    fold (set_all (r_uni (a_res a)) (r_uni (c_res x))). fold (set_all (r_uni (a_res a)) (r_uni (c_res y))).
    rewrite !alookup_set_all, (alookup_ext_kfind _ _ H10). reflexivity.
  - rewrite H11. reflexivity.
  - rewrite H12. reflexivity.
Qed.

Lemma apply_adj_ns x y a :
  obs_equiv (erase x) (erase y) -> obs_equiv (erase (apply_adj x a)) (erase (apply_adj y a)).
Proof. intros H. apply erase_of_NS. apply apply_adj_NS. apply NS_of_erase. exact H. Qed.

Lemma apply_all_ns ps : forall x y,
  obs_equiv (erase x) (erase y) -> obs_equiv (erase (apply_all x ps)) (erase (apply_all y ps)).
Proof.
  induction ps as [|p r IH]; intros x y H; [exact H|]. rewrite !apply_all_cons. apply IH. apply apply_adj_ns. exact H.
Qed.

(* gen_view and cleared_classes only concern the scalars *)
Lemma erase_view c a :
  obs_equiv (erase (apply_adj (cleared_classes a c) (gen_view a))) (erase (apply_adj c a)).
Proof. unfold obs_equiv. repeat split. Qed.

(* ---------- the non-scalar part ---------- *)
Lemma wf_gen_P_of s a : wf_gen s a = true -> wf_gen_P s a.
Proof. apply wf_gen_props. Qed.

Lemma gen_seq_ns ps : forall sp,
  seq_wf sp ps = true -> obs_equiv (erase (sp_c (gen_seq ps sp))) (erase (apply_all (sp_c sp) ps)).
Proof.
  induction ps as [|a r IH]; intros sp H; [apply obs_equiv_refl|].
  cbn [seq_wf] in H. apply andb_true_iff in H. destruct H as [Hw Hr].
  unfold gen_seq. cbn [fold_left]. fold (gen_seq r (gen_adjust a sp)). rewrite apply_all_cons.
  apply (obs_equiv_trans _ _ _ (IH _ Hr)). apply apply_all_ns.
  apply (obs_equiv_trans _ (erase (apply_adj (cleared_classes a (sp_c sp)) (gen_view a)))).
  - apply obs_equiv_erase. apply gen_refines_equiv. apply wf_gen_P_of. exact Hw.
  - apply erase_view.
Qed.

(* ---------- the scalar part: the generator's effect on one field ---------- *)
Definition eff (sc : list (sfield * sval)) (f : sfield) (cur : option sval) : option sval :=
  match f with
  | CpuShares | CpuQuota | CpuPeriod | CpuRtRuntime | CpuRtPeriod | CpuCpus | CpuMems | Pids =>
      match flookup f sc with Some v => Some v | None => cur end
  | MemLimit | MemSwap =>
      match flookup MemLimit sc with
      | Some (VZ l) => if Z.eqb l 0 then cur else Some (VZ l)
      | _ => cur
      end
  | BlockioClass | RdtClass =>
      match flookup f sc with Some (VS "") => None | Some v => Some v | None => cur end
  | _ => cur
  end.

Lemma flookup_gen_scal sc c f : flookup f (gen_scal sc c) = eff sc f (flookup f c).
Proof.
  unfold gen_scal. rewrite !flookup_cls_fn, flookup_set_if, flookup_mem_fn, !flookup_set_if. unfold eff.
  destruct f; cbn [sfield_eqb sfield_idx Nat.eqb];
    repeat match goal with
           | |- context [flookup ?X sc] => destruct (flookup X sc) as [[[|?|?]|?|[|? ?]]|]
           end; cbn; reflexivity.
Qed.

Lemma eff_compose sa sR f cur :
  memlimit_ok sa = true -> eff sa f (eff sR f cur) = eff (apply_scal sR sa) f cur.
Proof.
  unfold memlimit_ok, eff.
  destruct f; rewrite ?CombineBase.flookup_apply_scal;
    repeat match goal with
           | |- context [flookup ?X sa] => destruct (flookup X sa) as [[[|?|?]|?|[|? ?]]|]
           end; intros Hm; try discriminate Hm; reflexivity.
Qed.

Definition scal_seq (ps : list adjustment) (sc : list (sfield * sval)) : list (sfield * sval) :=
  fold_left (fun s a => gen_scal (r_scal (a_res a)) s) ps sc.
Definition scal_overlay (ps : list adjustment) (acc : list (sfield * sval)) : list (sfield * sval) :=
  fold_left (fun s a => apply_scal s (r_scal (a_res a))) ps acc.

Lemma gen_seq_scal ps : forall sp, r_scal (c_res (sp_c (gen_seq ps sp))) = scal_seq ps (r_scal (c_res (sp_c sp))).
Proof.
  induction ps as [|a r IH]; intros sp; [reflexivity|].
  unfold gen_seq, scal_seq. cbn [fold_left]. fold (gen_seq r (gen_adjust a sp)). rewrite IH.
  rewrite gen_adjust_c. cbv zeta. cbn [c_res]. rewrite gen_resources_scal. reflexivity.
Qed.

Lemma scal_seq_overlay c0 ps : forall sR X,
  (forall g, flookup g X = flookup g (gen_scal sR c0)) ->
  memlimits_ok ps = true ->
  forall f, flookup f (scal_seq ps X) = flookup f (gen_scal (scal_overlay ps sR) c0).
Proof.
  induction ps as [|a r IH]; intros sR X HX Hm f; [apply HX|].
  cbn [memlimits_ok forallb] in Hm. apply andb_true_iff in Hm. destruct Hm as [Ha Hr].
  unfold scal_seq, scal_overlay. cbn [fold_left].
  apply (IH (apply_scal sR (r_scal (a_res a))) (gen_scal (r_scal (a_res a)) X)); [|exact Hr].
  intros g. rewrite !flookup_gen_scal, HX, flookup_gen_scal. apply eff_compose. exact Ha.
Qed.

(* ---------- the reply's scalars are the overlay of the plugins' scalars ---------- *)
Lemma adjust_res p c a o c' a' o' : adjust p (c, a, o) = Ok (c', a', o') -> a_res a' = apply_res (a_res a) (a_res p).
Proof.
  intros H. unfold adjust, bind in H.
  destruct (adj_annotations (a_ann p) (c, a, o)) as [[[c1 a1] o1]|e1] eqn:S1; [|discriminate].
  assert (R1 : a_res a1 = a_res a).
  { unfold adj_annotations in S1. destruct (a_ann p); [inversion S1; reflexivity|].
    destruct (adjust_annotations _ _ _ _ _) as [[[v r] ox]|]; [inversion S1; reflexivity|discriminate]. }
  destruct (adj_mounts (a_mounts p) _) as [[[c2 a2] o2]|e2] eqn:S2; [|discriminate].
  destruct (adj_mounts_spec _ _ _ _ _ _ _ S2) as [r2 [v2 [_ [-> _]]]].
  destruct (adj_env (a_env p) _) as [[[c3 a3] o3]|e3] eqn:S3; [|discriminate].
  destruct (adj_env_spec _ _ _ _ _ _ _ S3) as [r3 [v3 [_ [-> _]]]].
  destruct (adj_args (a_args p) _) as [[[c4 a4] o4]|e4] eqn:S4; [|discriminate].
  assert (R4 : a_res a4 = a_res a1).
  { unfold adj_args in S4. destruct (a_args p) as [|a0 rest]; [inversion S4; reflexivity|].
    destruct (String.eqb a0 "");
      (destruct (claim _ _); [inversion S4; reflexivity|discriminate]). }
  destruct (adj_hooks (a_hooks p) _) as [[[c5 a5] o5]|e5] eqn:S5; [|discriminate].
  destruct (adj_hooks_spec _ _ _ _ _ _ _ S5) as [_ [-> _]].
  destruct (adj_devices (a_devices p) _) as [[[c6 a6] o6]|e6] eqn:S6; [|discriminate].
  destruct (adj_devices_spec _ _ _ _ _ _ _ S6) as [r6 [v6 [_ [-> _]]]].
  destruct (adj_resources (a_res p) _) as [[[c7 a7] o7]|e7] eqn:S7; [|discriminate].
  destruct (adj_resources_spec _ _ _ _ _ _ _ S7) as [_ [-> _]].
  destruct (adj_cgroups (a_cgroups p) _) as [[[c8 a8] o8]|e8] eqn:S8; [|discriminate].
  destruct (adj_cgroups_spec _ _ _ _ _ _ _ S8) as [_ [_ ->]].
  destruct (adj_oom (a_oom p) _) as [[[c9 a9] o9]|e9] eqn:S9; [|discriminate].
  destruct (adj_oom_spec _ _ _ _ _ _ _ S9) as [_ [_ ->]].
  destruct (adj_rlimits (a_rlimits p) _) as [[[c10 a10] o10]|e10] eqn:S10; [|discriminate].
  destruct (adj_rlimits_spec _ _ _ _ _ _ _ S10) as [_ [_ ->]].
  destruct (adj_cdi_spec _ _ _ _ _ _ _ H) as [_ [_ ->]].
  cbn [a_res with_a_cdi with_a_rlimits with_a_oom with_a_cgroups with_a_res with_a_devices with_a_hooks with_a_env with_a_mounts].
  rewrite R4, R1. reflexivity.
Qed.

Lemma apply_scal_nil c : apply_scal c [] = c.
Proof. reflexivity. Qed.

Lemma steps_reply_scal rps : forall s s',
  (exists c, s_create s = Some c) -> steps rps s = Ok s' ->
  r_scal (a_res (s_adjust s')) = scal_overlay (adjs rps) (r_scal (a_res (s_adjust s))).
Proof.
  induction rps as [|rp r IH]; intros s s' [c Hc] H; cbn [steps] in H; [inversion H; reflexivity|].
  destruct (apply_response rp s) as [s1|e] eqn:E; cbn [bind] in H; [|discriminate].
  assert (Hc1 : exists c1, s_create s1 = Some c1).
  { unfold apply_response in E. rewrite Hc in E. destruct (rp_adjust rp) as [q|].
    - destruct (adjust q (c, s_adjust s, s_own s)) as [[[c' a'] o']|e]; cbn [bind] in E; [|discriminate].
      destruct (update_all_frame _ _ _ E) as [G _]. cbn [s_create] in G. exists c'. exact G.
    - cbn [bind] in E. destruct (update_all_frame _ _ _ E) as [G _]. exists c. congruence. }
  rewrite (IH _ _ Hc1 H). unfold adjs, scal_overlay. cbn [map fold_left]. f_equal.
  unfold apply_response in E. rewrite Hc in E. unfold adj_of. destruct (rp_adjust rp) as [q|].
  - destruct (adjust q (c, s_adjust s, s_own s)) as [[[c' a'] o']|e] eqn:Ha; cbn [bind] in E; [|discriminate].
    destruct (update_all_frame _ _ _ E) as [_ [G _]]. cbn [s_adjust] in G. rewrite G, (adjust_res _ _ _ _ _ _ _ Ha). reflexivity.
  - cbn [bind] in E. destruct (update_all_frame _ _ _ E) as [_ [G _]]. rewrite G. reflexivity.
Qed.

(* ---------- CDI names ---------- *)
Lemma gen_seq_cdi ps : forall sp, sp_cdi (gen_seq ps sp) = sp_cdi sp ++ concat (map a_cdi ps).
Proof.
  induction ps as [|a r IH]; intros sp; [cbn; rewrite app_nil_r; reflexivity|].
  unfold gen_seq. cbn [fold_left]. fold (gen_seq r (gen_adjust a sp)). rewrite IH, gen_adjust_cdi.
  cbn [map concat]. rewrite <- app_assoc. reflexivity.
Qed.

(* ====================================================================== *)
(* C03_via_generator                                                      *)
(* ====================================================================== *)
Theorem via_generator_equiv sp0 rps s :
  wf_create (sp_c sp0) rps = true ->
  snd (run_request (RCreate (sp_c sp0)) rps) = Ok s ->
  wf_gen sp0 (s_adjust s) = true ->
  seq_wf sp0 (adjs rps) = true ->
  memlimits_ok (adjs rps) = true ->
  obs_equiv (sp_c (gen_adjust (s_adjust s) sp0)) (sp_c (gen_seq (adjs rps) sp0)) /\
  sp_cdi (gen_adjust (s_adjust s) sp0) = sp_cdi (gen_seq (adjs rps) sp0).
Proof.
  intros Hwf Hok Hcomb Hseq Hmem. split.
  - apply obs_equiv_split.
    + (* everything but the scalars, through the refinement and C03_combined_equals_sequential *)
      apply (obs_equiv_trans _ (erase (apply_adj (sp_c sp0) (s_adjust s)))).
      * apply (obs_equiv_trans _ (erase (apply_adj (cleared_classes (s_adjust s) (sp_c sp0)) (gen_view (s_adjust s))))).
        -- apply obs_equiv_erase. apply gen_refines_equiv. apply wf_gen_P_of. exact Hcomb.
        -- apply erase_view.
      * apply (obs_equiv_trans _ (erase (apply_all (sp_c sp0) (adjs rps)))).
        -- apply obs_equiv_erase. apply OEq_obs_equiv. apply (combined_OEq _ _ _ Hwf Hok).
        -- apply obs_equiv_sym. apply gen_seq_ns. exact Hseq.
    + (* the scalars, on the generator's closed form *)
      intros f. rewrite gen_seq_scal, gen_adjust_c. cbv zeta. cbn [c_res]. rewrite gen_resources_scal.
      assert (Hs : r_scal (a_res (s_adjust s)) = scal_overlay (adjs rps) []).
      { unfold run_request in Hok. rewrite run_plugins_snd in Hok.
        apply (steps_reply_scal rps (init_state (RCreate (sp_c sp0))) s (ex_intro _ (sp_c sp0) eq_refl) Hok). }
      rewrite Hs. symmetry. apply (scal_seq_overlay (r_scal (c_res (sp_c sp0))) (adjs rps) [] _); [|exact Hmem].
      intros g. rewrite flookup_gen_scal. unfold eff. destruct g; reflexivity.
  - rewrite gen_seq_cdi, gen_adjust_cdi.
    destruct (create_final_state _ _ _ Hwf Hok) as [c [_ [_ [_ Hcdi]]]]. rewrite Hcdi. reflexivity.
Qed.

Theorem via_generator sp0 rps s :
  wf_create (sp_c sp0) rps = true ->
  snd (run_request (RCreate (sp_c sp0)) rps) = Ok s ->
  wf_gen sp0 (s_adjust s) = true ->
  seq_wf sp0 (adjs rps) = true ->
  memlimits_ok (adjs rps) = true ->
  obs_eqb (sp_c (gen_adjust (s_adjust s) sp0)) (sp_c (gen_seq (adjs rps) sp0)) = true /\
  sp_cdi (gen_adjust (s_adjust s) sp0) = sp_cdi (gen_seq (adjs rps) sp0).
Proof.
  intros Hwf Hok Hcomb Hseq Hmem. destruct (via_generator_equiv sp0 rps s Hwf Hok Hcomb Hseq Hmem) as [H1 H2].
  split; [apply obs_equiv_eqb; exact H1|exact H2].
Qed.

(* ---------- non-vacuity: a history meeting all five hypotheses ---------- *)
(* original with key=value environment and distinct keys (wf_cont); plugin 1 sets / removes originals, gives a
   memory limit and clears a class; plugin 2 removes what plugin 1 set, removes-then-sets, sets a class; plugin 3
   has no adjustment; plugin 4 sets again what plugin 2 removed *)
Definition vg_c0 : container :=
  {| c_id := "c"; c_ann := [("a","0");("b","0")];
     c_mounts := [ex_mt "/m" "0"; ex_mt "/n" "0"];
     c_env := ["E=0";"F=0"]; c_args := ["orig"]; c_hooks := hooks_empty;
     c_rlimits := [{| rl_type := "nofile"; rl_hard := 1; rl_soft := 1 |}];
     c_devices := [ex_dv "/dev/a" 0%Z; ex_dv "/dev/b" 0%Z];
     c_res := {| r_scal := [(MemLimit, VZ 5); (MemSwap, VZ 5); (CpuShares, VZ 7); (RdtClass, VS "old")]; r_hp := [("2M", 1%Z)]; r_uni := [("u","0");("w","0")] |};
     c_cgroups := "/cg"; c_oom := Some 3%Z |}.
Definition vg_sp0 : spec := {| sp_c := vg_c0; sp_cdi := ["cdi0"]; sp_rules := [] |}.
Definition vg_A1 : adjustment :=
  {| a_ann := [("a","1");("n","1");("-b","")]; a_mounts := [ex_mt "/m" "1"; ex_mt "-/n" ""; ex_mt "/x" "1"];
     a_env := [("E","1");("-F","");("N","1")]; a_args := ["a1"];
     a_hooks := {| hk_prestart := [ex_hk "/h1"]; hk_createruntime := []; hk_createcontainer := []; hk_startcontainer := [];
                   hk_poststart := []; hk_poststop := [ex_hk "/p1"] |};
     a_rlimits := [{| rl_type := "core"; rl_hard := 1; rl_soft := 1 |}]; a_cdi := ["cdi1"];
     a_devices := [ex_dv "/dev/a" 1%Z; ex_dv "-/dev/b" 0%Z; ex_dv "/dev/x" 1%Z];
     a_res := {| r_scal := [(MemLimit, VZ 10); (Pids, VZ 9); (RdtClass, VS "")]; r_hp := [("2M", 2%Z); ("1G", 1%Z)];
                 r_uni := [("u","1");("v","1")] |};
     a_cgroups := "/cg1"; a_oom := Some 1%Z |}.
Definition vg_A2 : adjustment :=
  {| a_ann := [("-a","");("-n","");("n","2")]; a_mounts := [ex_mt "-/m" ""; ex_mt "-/x" ""; ex_mt "/x" "2"];
     a_env := [("-E","");("-N","");("N","2")]; a_args := ["";"a2";"b2"];
     a_hooks := {| hk_prestart := [ex_hk "/h2"]; hk_createruntime := []; hk_createcontainer := []; hk_startcontainer := [];
                   hk_poststart := []; hk_poststop := [] |};
     a_rlimits := [{| rl_type := "stack"; rl_hard := 2; rl_soft := 2 |}]; a_cdi := ["cdi2";"cdi2b"];
     a_devices := [ex_dv "-/dev/a" 0%Z; ex_dv "-/dev/x" 0%Z; ex_dv "/dev/x" 2%Z];
     a_res := {| r_scal := [(CpuShares, VZ 20); (BlockioClass, VS "blk"); (MemReservation, VZ 3)]; r_hp := [("4M", 2%Z)]; r_uni := [("z","2")] |}; a_cgroups := ""; a_oom := None |}.
Definition vg_A3 : adjustment :=
  {| a_ann := [("a","3");("b","3")]; a_mounts := [ex_mt "/m" "3"; ex_mt "/n" "3"];
     a_env := [("E","3");("F","3")]; a_args := []; a_hooks := hooks_empty;
     a_rlimits := []; a_cdi := []; a_devices := [ex_dv "/dev/a" 3%Z; ex_dv "/dev/b" 3%Z];
     a_res := res_empty; a_cgroups := ""; a_oom := None |}.
Definition vg_rps := [ex_R vg_A1; ex_R vg_A2; {| rp_adjust := None; rp_updates := [] |}; ex_R vg_A3].

Lemma vg_example :
  wf_create (sp_c vg_sp0) vg_rps = true /\
  exists s, snd (run_request (RCreate (sp_c vg_sp0)) vg_rps) = Ok s /\ wf_gen vg_sp0 (s_adjust s) = true /\
            seq_wf vg_sp0 (adjs vg_rps) = true /\ memlimits_ok (adjs vg_rps) = true.
Proof.
  split; [vm_compute; reflexivity|]. eexists. split; [vm_compute; reflexivity|].
  split; [vm_compute; reflexivity|]. split; vm_compute; reflexivity.
Qed.
