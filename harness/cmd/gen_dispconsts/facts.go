package main

// Facts about the dispatch code, decided on the paths the symbolic executor (symex.go) finds.  Each
// extractor answers with the CANONICAL constants the Coq model expects when the meaning it looks for is
// established on every path, and with what it actually saw (or a marker starting with "?") otherwise, so
// that an unrecognised or changed meaning breaks structure_ok and never passes by default.

import (
	"fmt"
	"go/ast"
	"regexp"
	"strings"

	"verif/harness/internal/gast"
)

var adaptPure = []string{"getPluginRequestTimeout", "getPluginRegistrationTimeout", "isFatalError",
	"collectCreateContainerResult", "collectUpdateContainerResult", "collectStopContainerResult",
	"createContainerResponse", "updateContainerResponse", "stopContainerResponse"}

func unsupported(outs []out) string {
	for _, o := range outs {
		if len(o.st.unsup) > 0 {
			return o.st.unsup[0]
		}
	}
	return ""
}

// ---------------------------------------------------------------- isFatalError

var (
	errIsRE  = regexp.MustCompile(`^errors\.Is\(\$0,([A-Za-z0-9_.]+)\)$`)
	statusRE = regexp.MustCompile(`^\((?:status\.Code\(\$0\)==(codes\.[A-Za-z]+)|(codes\.[A-Za-z]+)==status\.Code\(\$0\))\)$`)
)

func atomClass(key string) string {
	if m := errIsRE.FindStringSubmatch(key); m != nil {
		return m[1]
	}
	if m := statusRE.FindStringSubmatch(key); m != nil {
		return m[1] + m[2]
	}
	return "?" + key
}

// fatalClasses: isFatalError must be a disjunction of tests errors.Is(err, X) / status.Code(err) == codes.Y
// (a switch, an if-chain, a loop over a table of sentinel errors, a returned comparison — all the same here).
func fatalClasses(p *pkgInfo) []string {
	fi := p.method("", "isFatalError")
	if fi == nil {
		return []string{"?no isFatalError"}
	}
	x := newSymex(p, nil, nil)
	outs := x.run(fi)
	if u := unsupported(outs); u != "" {
		return []string{"?" + u}
	}
	var order []string
	seen := map[string]bool{}
	note := func(k string) {
		if !seen[k] {
			seen[k] = true
			order = append(order, k)
		}
	}
	for _, o := range outs {
		if len(o.st.trace) != 0 || len(o.ret) != 1 {
			return []string{"?effects in isFatalError"}
		}
		trues := 0
		for i, d := range o.st.decs {
			note(d.key)
			if d.v {
				trues++
				if i != len(o.st.decs)-1 {
					return []string{"?shape"}
				}
			}
		}
		switch r := o.ret[0].String(); {
		case r == "true":
			if trues != 1 {
				return []string{"?shape"}
			}
		case r == "false":
			if trues != 0 {
				return []string{"?shape"}
			}
		case strings.HasPrefix(r, "!"):
			return []string{"?negated result"}
		default:
			// `return <test>`: one more test, reached when every earlier one failed
			if trues != 0 {
				return []string{"?shape"}
			}
			note(r)
		}
	}
	var cls []string
	for _, k := range order {
		cls = append(cls, atomClass(k))
	}
	return cls
}

// ---------------------------------------------------------------- relay functions

type relayFacts struct {
	ev                                                 string // "None" | "(Some n%Z)"
	guardFirst, deadline, closes, nilOnFatal, errOther bool
	why                                                string
}

var isSetRE = regexp.MustCompile(`^\$r\.events\.IsSet\((.*)\)$`)

func relayFunction(p *pkgInfo, name string, evVal func(string) (int64, bool)) relayFacts {
	rf := relayFacts{ev: "(Some 0%Z)"}
	fi := p.method("plugin", name)
	if fi == nil {
		rf.why = "no such method"
		return rf
	}
	x := newSymex(p, []string{"close", "isClosed", "stop"}, adaptPure)
	x.dropEmptySections = true
	outs := x.run(fi)
	if u := unsupported(outs); u != "" {
		rf.why = u
		return rf
	}
	// the subscription test: one IsSet atom, decided first on every path
	setKey := ""
	for _, o := range outs {
		if len(o.st.decs) == 0 {
			rf.why = "a path without a subscription test"
			return rf
		}
		k := o.st.decs[0].key
		if !isSetRE.MatchString(k) || (setKey != "" && k != setKey) {
			rf.why = "first decision is not one p.events.IsSet test: " + k
			return rf
		}
		setKey = k
		for _, d := range o.st.decs[1:] {
			if isSetRE.MatchString(d.key) {
				rf.why = "more than one subscription test"
				return rf
			}
		}
	}
	arg := isSetRE.FindStringSubmatch(setKey)[1]
	switch {
	case arg == "$1.Event":
		rf.ev = "None"
	default:
		if v, ok := evVal(arg); ok {
			rf.ev = fmt.Sprintf("(Some %d%%Z)", v)
		}
	}
	rf.guardFirst, rf.deadline, rf.closes, rf.nilOnFatal, rf.errOther = true, true, true, true, true
	sawFatal, sawOther, sawOK := false, false, false
	for _, o := range outs {
		sub, _ := decOf(o, setKey)
		if !sub {
			if len(o.st.trace) != 0 || !allNilVals(o.ret) {
				rf.guardFirst = false
			}
			continue
		}
		// exactly one call to the plugin, under the per-call deadline; nothing else but the deferred cancel
		var impl *event
		for i := range o.st.trace {
			e := &o.st.trace[i]
			switch {
			case strings.HasPrefix(e.fn, "$r.impl."):
				if impl != nil {
					rf.why = "more than one call to the plugin"
					rf.deadline, rf.errOther = false, false
				}
				impl = e
			case e.deferred && strings.HasPrefix(e.fn, "context.WithTimeout("):
			case e.fn == "$r.close":
			default:
				rf.why = "unexpected effect " + e.String()
				rf.closes, rf.errOther = false, false
			}
		}
		if impl == nil {
			rf.why = "a subscribed path without a call to the plugin"
			rf.deadline, rf.errOther, rf.closes, rf.nilOnFatal = false, false, false, false
			continue
		}
		if len(impl.args) < 1 || impl.args[0] != "context.WithTimeout($0,getPluginRequestTimeout()).0" {
			rf.deadline = false
		}
		call := fmt.Sprintf("call%d", impl.id)
		errVal, failed, known := "", false, false
		for _, d := range o.st.decs {
			if d.key == "nil?("+call+")" || d.key == "nil?("+call+".1)" {
				errVal, failed, known = strings.TrimSuffix(strings.TrimPrefix(d.key, "nil?("), ")"), !d.v, true
			}
		}
		if !known {
			rf.why = "the plugin's error is not tested"
			rf.errOther, rf.closes, rf.nilOnFatal = false, false, false
			continue
		}
		closed := false
		for _, e := range o.st.trace {
			if e.fn == "$r.close" && e.id > impl.id {
				closed = true
			} else if e.fn == "$r.close" {
				rf.closes = false
			}
		}
		last := ""
		if len(o.ret) > 0 {
			last = o.ret[len(o.ret)-1].String()
		}
		if !failed {
			sawOK = true
			if closed || last != "nil" {
				rf.closes, rf.errOther = false, false
			}
			continue
		}
		fatal, tested := decOf(o, "isFatalError("+errVal+")")
		switch {
		case !tested:
			rf.why = "a failed call is not classified by isFatalError"
			rf.closes, rf.nilOnFatal, rf.errOther = false, false, false
		case fatal:
			sawFatal = true
			if !closed {
				rf.closes = false
			}
			if !allNilVals(o.ret) {
				rf.nilOnFatal = false
			}
		default:
			sawOther = true
			if closed || last != errVal {
				rf.errOther = false
			}
			for _, v := range o.ret[:len(o.ret)-1] {
				if v.String() != "nil" {
					rf.errOther = false
				}
			}
		}
	}
	if !sawFatal {
		rf.closes, rf.nilOnFatal = false, false
	}
	if !sawOther || !sawOK {
		rf.errOther = false
	}
	return rf
}

// ---------------------------------------------------------------- the five loops over the plugins

type entryFacts struct {
	locked bool   // guards, then r.Lock(); defer r.Unlock(); defer r.removeClosedPlugins() before anything else
	relay  string // relay function called on each plugin
	abort  bool   // the loop over r.plugins is left at once with the error of a failed call or merge
	why    string
}

var relayNames = []string{"createContainer", "updateContainer", "stopContainer", "updatePodSandbox", "StateChange"}

func entryPoint(p *pkgInfo, name string) entryFacts {
	ef := entryFacts{}
	fi := p.method("Adaptation", name)
	if fi == nil {
		ef.why = "no such method"
		return ef
	}
	opaque := append([]string{"removeClosedPlugins", "apply", "sortPlugins"}, relayNames...)
	x := newSymex(p, opaque, adaptPure)
	outs := x.run(fi)
	if u := unsupported(outs); u != "" {
		ef.why = u
		return ef
	}
	ef.locked, ef.abort = true, true
	loops := 0
	for _, o := range outs {
		tr := o.st.trace
		if len(tr) == 0 {
			// a guard: nothing touched, an error returned
			if len(o.ret) == 0 || o.ret[len(o.ret)-1].String() == "nil" {
				ef.locked = false
				ef.why = "a path that does nothing and reports no error"
			}
			continue
		}
		// the lock first; on the way out (deferred, so on every path) the closed plugins are pruned, then the lock released
		n := len(tr)
		if n < 3 || tr[0].String() != "$r.Lock()" || tr[n-2].String() != "defer $r.removeClosedPlugins()" || tr[n-1].String() != "defer $r.Unlock()" {
			ef.locked = false
			ef.why = "is not: lock first; deferred pruning, then deferred unlock last"
			continue
		}
		var failedCall string
		loopKey := ""
		for _, e := range tr[1 : n-2] {
			switch {
			case e.fn == "range":
				if len(e.args) != 1 || e.args[0] != "$r.plugins" {
					ef.abort = false
					ef.why = "loops over " + strings.Join(e.args, ",")
				}
				loopKey = "range($r.plugins)"
			case strings.HasPrefix(e.fn, "elem($r.plugins)."):
				rn := strings.TrimPrefix(e.fn, "elem($r.plugins).")
				if ef.relay != "" && ef.relay != rn {
					ef.abort = false
					ef.why = "two relay functions"
				}
				ef.relay = rn
				fallthrough
			case strings.HasSuffix(e.fn, ".apply"):
				call := fmt.Sprintf("call%d", e.id)
				_, t1 := decOf(o, "nil?("+call+")")
				_, t2 := decOf(o, "nil?("+call+".1)")
				if !t1 && !t2 && failedCall == "" {
					ef.abort = false
					ef.why = "the error of " + e.fn + " is not tested"
				}
				for _, k := range []string{"nil?(" + call + ")", "nil?(" + call + ".1)"} {
					if isNil, ok := decOf(o, k); ok && !isNil {
						if failedCall != "" {
							ef.abort = false
							ef.why = "carries on after a failed call"
						}
						failedCall = strings.TrimSuffix(strings.TrimPrefix(k, "nil?("), ")")
					} else if ok && failedCall != "" {
						ef.abort = false
						ef.why = "carries on after a failed call"
					}
				}
				if failedCall != "" && failedCall != call && !strings.HasPrefix(failedCall, call+".") {
					ef.abort = false
					ef.why = "carries on after a failed call"
				}
			case e.fn == "$r.Lock" || e.fn == "$r.Unlock" || e.fn == "$r.removeClosedPlugins":
				ef.locked = false
				ef.why = "locks or prunes a second time"
			default:
				ef.abort = false
				ef.why = "unexpected effect " + e.String()
			}
		}
		if loopKey == "" {
			ef.abort = false
			ef.why = "no loop over r.plugins"
			continue
		}
		loops++
		last := "nil"
		if len(o.ret) > 0 {
			last = o.ret[len(o.ret)-1].String()
		}
		if failedCall != "" {
			if ex := o.st.loopExit[loopKey]; ex != "return" && ex != "break" {
				ef.abort = false
				ef.why = "the loop goes on after a failed call"
			}
			if last != failedCall {
				ef.abort = false
				ef.why = "a failed call's error is not what is returned"
			}
			for _, v := range o.ret[:len(o.ret)-1] {
				if v.String() != "nil" {
					ef.abort = false
				}
			}
		} else if last != "nil" {
			ef.abort = false
			ef.why = "an error out of nowhere"
		}
	}
	if loops == 0 || ef.relay == "" {
		ef.abort = false
	}
	return ef
}

// ---------------------------------------------------------------- unsolicited updates

// Adaptation.updateContainers: lock; deferred (or scoped) unlock; the call-back once, on the list handed in;
// its two results returned.
func adaptationUpdate(p *pkgInfo) (bool, string) {
	fi := p.method("Adaptation", "updateContainers")
	if fi == nil {
		return false, "no such method"
	}
	x := newSymex(p, nil, adaptPure)
	outs := x.run(fi)
	if u := unsupported(outs); u != "" {
		return false, u
	}
	if len(outs) != 1 {
		return false, fmt.Sprintf("%d paths", len(outs))
	}
	o := outs[0]
	tr := o.st.trace
	if len(tr) != 3 || tr[0].String() != "$r.Lock()" || tr[1].String() != "$r.updateFn($0,$1)" || tr[2].String() != "defer $r.Unlock()" {
		var s []string
		for _, e := range tr {
			s = append(s, e.String())
		}
		return false, "effects: " + strings.Join(s, "; ")
	}
	call := fmt.Sprintf("call%d", tr[1].id)
	if len(o.ret) == 2 && o.ret[0].String() == call+".0" && o.ret[1].String() == call+".1" {
		return true, ""
	}
	if len(o.ret) == 1 && o.ret[0].String() == call {
		return true, ""
	}
	return false, "does not return the call-back's results"
}

// plugin.UpdateContainers: nothing but the call r.updateContainers(ctx, req.Update); returns a response whose
// Failed is the first result, and the second result.
func pluginUpdate(p *pkgInfo) (bool, string) {
	fi := p.method("plugin", "UpdateContainers")
	if fi == nil {
		return false, "no such method"
	}
	x := newSymex(p, []string{"updateContainers"}, adaptPure)
	outs := x.run(fi)
	if u := unsupported(outs); u != "" {
		return false, u
	}
	if len(outs) != 1 {
		return false, fmt.Sprintf("%d paths", len(outs))
	}
	o := outs[0]
	tr := o.st.trace
	if len(tr) != 1 || tr[0].fn != "$r.r.updateContainers" || len(tr[0].args) != 2 || tr[0].args[0] != "$0" ||
		(tr[0].args[1] != "$1.Update" && tr[0].args[1] != "getf($1,Update)") {
		var s []string
		for _, e := range tr {
			s = append(s, e.String())
		}
		return false, "effects: " + strings.Join(s, "; ")
	}
	call := fmt.Sprintf("call%d", tr[0].id)
	if len(o.ret) != 2 || o.ret[0].String() != "UpdateContainersResponse{Failed:"+call+".0}" || o.ret[1].String() != call+".1" {
		return false, "returns " + fmt.Sprint(o.ret)
	}
	return true, ""
}

// Stub.UpdateContainers: without a runtime connection nothing happens and ErrNoService is returned; otherwise
// one call runtime.UpdateContainers(context.Background(), {Update: update}); the response's Failed (nil without
// a response) and the error are returned.  Returns (guard, relays, unbounded context).
func stubUpdate(p *pkgInfo) (guard, relays, unbounded bool, why string) {
	fi := p.method("stub", "UpdateContainers")
	if fi == nil {
		return false, false, false, "no such method"
	}
	x := newSymex(p, nil, nil)
	outs := x.run(fi)
	if u := unsupported(outs); u != "" {
		return false, false, false, u
	}
	guard, relays, unbounded = true, true, true
	sawNo, sawYes := false, false
	for _, o := range outs {
		isNil, ok := decOf(o, "nil?($r.runtime)")
		if !ok || len(o.st.decs) == 0 || o.st.decs[0].key != "nil?($r.runtime)" {
			return false, false, false, "the runtime connection is not tested first"
		}
		if isNil {
			sawNo = true
			if len(o.st.trace) != 0 || len(o.ret) != 2 || o.ret[0].String() != "nil" || o.ret[1].String() != "ErrNoService" {
				guard = false
				why = "without a connection: effects or another result"
			}
			continue
		}
		sawYes = true
		tr := o.st.trace
		for _, e := range tr {
			if e.fn == "$r.runtime.UpdateContainers" && (len(e.args) < 1 || e.args[0] != "context.Background()") {
				unbounded = false
				why = "the call to the runtime is made under another context than context.Background()"
			}
		}
		if len(tr) != 1 || tr[0].fn != "$r.runtime.UpdateContainers" || len(tr[0].args) != 2 {
			relays = false
			if why == "" {
				why = "with a connection: not exactly one call to the runtime"
			}
			continue
		}
		if tr[0].args[0] != "context.Background()" {
			unbounded = false
			why = "the call is made under " + tr[0].args[0]
		}
		if tr[0].args[1] != "UpdateContainersRequest{Update:$0}" {
			relays = false
			why = "the request is " + tr[0].args[1]
		}
		call := fmt.Sprintf("call%d", tr[0].id)
		if len(o.ret) != 2 || o.ret[1].String() != call+".1" {
			relays = false
			why = "the error returned is not the call's"
			continue
		}
		got := o.ret[0].String()
		rnil, tested := decOf(o, "nil?("+call+".0)")
		switch {
		case got == "getf("+call+".0,Failed)":
		case tested && !rnil && got == call+".0.Failed":
		case tested && rnil && got == "nil":
		default:
			relays = false
			why = "the failed list returned is " + got
		}
	}
	if !sawNo || !sawYes {
		guard, relays = false, false
	}
	return
}

// ---------------------------------------------------------------- sortPlugins

// sortOrder: removeClosedPlugins first, then sort.Slice over r.plugins with idx[i] < idx[j].
func sortOrder(p *pkgInfo) (prunesFirst bool, less string) {
	fi := p.method("Adaptation", "sortPlugins")
	if fi == nil {
		return false, "?no sortPlugins"
	}
	x := newSymex(p, []string{"removeClosedPlugins"}, adaptPure)
	// sort.Slice is recorded; its comparison is executed separately
	var sortCall *ast.CallExpr
	ast.Inspect(fi.fd.Body, func(n ast.Node) bool {
		if ce, ok := n.(*ast.CallExpr); ok && rnd(fi.file, ce.Fun) == "sort.Slice" && len(ce.Args) == 2 {
			sortCall = ce
		}
		return true
	})
	outs := x.run(fi)
	if u := unsupported(outs); u != "" || sortCall == nil || len(outs) == 0 {
		return false, "?" + u
	}
	prunesFirst = true
	sorted := ""
	for _, o := range outs {
		tr := o.st.trace
		if len(tr) < 2 || tr[0].String() != "$r.removeClosedPlugins()" || tr[1].fn != "sort.Slice" || len(tr[1].args) != 2 {
			prunesFirst = false
			continue
		}
		sorted = tr[1].args[0]
	}
	fl, ok := sortCall.Args[1].(*ast.FuncLit)
	if !ok || len(fl.Type.Params.List) == 0 {
		return prunesFirst, "?comparison is not a function literal"
	}
	// execute the comparison with i, j symbolic; the variables it captures are resolved by executing the
	// statements of sortPlugins up to the call in the same frame
	st := newState()
	cx := &actx{file: fi.file}
	fr := x.frame(st)
	cx.vis = []int{fr}
	st.frames[fr][fi.fd.Recv.List[0].Names[0].Name] = sym("$r")
	for _, s := range fi.fd.Body.List {
		if containsNode(s, sortCall) {
			break
		}
		for _, o := range x.stmt(st, s, cx) {
			st = o.st
			break
		}
	}
	rs := x.invoke(st, cx, fl.Type, fl.Body, fi.file, cx.vis, nil, "", []*val{sym("$i"), sym("$j")})
	if len(rs) != 1 {
		return prunesFirst, "?comparison has several paths"
	}
	return prunesFirst, sorted + ": " + rs[0].v.String()
}

func containsNode(root ast.Node, target ast.Node) bool {
	found := false
	ast.Inspect(root, func(n ast.Node) bool {
		if n == target {
			found = true
		}
		return !found
	})
	return found
}

// ---------------------------------------------------------------- configure's mask handling

// configureMask executes the statements of configure between the definition of `events` and its store into
// p.events.  zeroAll: an empty mask ends as ValidEvents; refuses: a mask with bits outside ValidEvents
// returns an error, any other non-empty mask is stored unchanged.
func configureMask(p *pkgInfo) (zeroAll, refuses bool, why string) {
	fi := p.method("plugin", "configure")
	if fi == nil {
		return false, false, "no configure"
	}
	from, to := -1, -1
	for i, s := range fi.fd.Body.List {
		if as, ok := s.(*ast.AssignStmt); ok && len(as.Lhs) == 1 {
			if id, ok := as.Lhs[0].(*ast.Ident); ok && id.Name == "events" && from < 0 {
				from = i
			}
			if se, ok := as.Lhs[0].(*ast.SelectorExpr); ok && se.Sel.Name == "events" && rnd(fi.file, as.Rhs[0]) == "events" {
				to = i
			}
		}
	}
	if from < 0 || to < from {
		return false, false, "events := … / p.events = events not found"
	}
	x := newSymex(p, nil, adaptPure)
	st := newState()
	cx := &actx{file: fi.file}
	fr := x.frame(st)
	cx.vis = []int{fr}
	st.frames[fr]["events"] = sym("E")
	outs := x.stmts(st, fi.fd.Body.List[from+1:to], cx)
	if u := unsupported(outs); u != "" {
		return false, false, u
	}
	const zero, extra = "(E==lit:0)", "((E&^ValidEvents)==lit:0)"
	zeroAll, refuses = true, true
	sawZero, sawBad, sawGood := false, false, false
	for _, o := range outs {
		if len(o.st.trace) != 0 {
			return false, false, "effects while the mask is checked"
		}
		final, _ := x.lookup(o.st, cx, "events")
		z, zok := decOf(o, zero)
		if !zok {
			return false, false, "the empty mask is not tested on every path"
		}
		if z {
			sawZero = true
			if o.kind == kReturn || final.String() != "ValidEvents" {
				zeroAll = false
			}
			continue
		}
		ok, tested := decOf(o, extra)
		switch {
		case !tested:
			refuses = false
			why = "bits outside ValidEvents are not tested for a non-empty mask"
		case !ok:
			sawBad = true
			if o.kind != kReturn || len(o.ret) == 0 || o.ret[len(o.ret)-1].String() == "nil" {
				refuses = false
			}
		default:
			sawGood = true
			if o.kind == kReturn || final.String() != "E" {
				refuses = false
			}
		}
		for _, d := range o.st.decs {
			if d.key != zero && d.key != extra {
				refuses = false
				why = "another condition on the mask: " + d.key
			}
		}
	}
	if !sawZero {
		zeroAll = false
	}
	if !sawBad || !sawGood {
		refuses = false
	}
	return
}

// ---------------------------------------------------------------- tokens without statements that have no effect

// significant: false for statements that only log or write diagnostic fields.
func (p *pkgInfo) significant(f *gast.File, s ast.Stmt) bool { return !p.insignificant(f, s) }
